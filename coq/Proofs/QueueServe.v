(* Proofs/QueueServe.v — C18: a freed plug is OFFERED to the vehicles of a queue in queue order.  During the update pass the queued
   vehicles are processed after all others, in (enqueue_time, id) order (Queue.v); while they are processed the number of free
   plugs of every type never grows (a queued vehicle's update either leaves the station alone or takes one plug).  Hence: if a
   vehicle finds a plug free at its turn, every vehicle processed earlier in that pass of the queue found it free at its own
   turn — an earlier vehicle stays waiting only if its own transition to charging is refused. *)
From Hive.Base Require Import Prelude.
From Hive.Model Require Import Types KernelBase SimOps States Step.
From Hive.Gen Require Import Kernels.
From Hive.Proofs Require Import SimFacts Reach VehFrame Atomic Trip Macro Sorted Queue Count CountInv Guards DispInv PlaceInv.
From Coq Require Import Sorting.Permutation.
Local Open Scope Z_scope.

Lemma NoDup_app_l {A} (a b : list A) : NoDup (a ++ b) -> NoDup a.
Proof. induction a as [|x a IH]; cbn; intro H; [constructor|]. inversion H; subst. constructor; [intro I; apply H2; apply in_or_app; auto|auto]. Qed.

Section Q.
Variable env : Env.
Ltac inv H := inversion H; subst; clear H.
Ltac dmatch H :=
  match type of H with
  | context [match ?x with _ => _ end] =>
      lazymatch x with
      | context [match _ with _ => _ end] => fail
      | _ => let E := fresh "E" in destruct x eqn:E; try discriminate
      end
  end.

(* no plug count of s' exceeds the one of s *)
Definition noninc (s s' : Sim) : Prop :=
  forall sid cid cs', slook (stations s') sid cid = Some cs' -> exists cs, slook (stations s) sid cid = Some cs /\ cs_avail cs' <= cs_avail cs.
Lemma noninc_refl s : noninc s s.
Proof. intros sid cid cs L. exists cs. split; [exact L|lia]. Qed.
Lemma noninc_trans a b c : noninc a b -> noninc b c -> noninc a c.
Proof. intros A B sid cid cs L. destruct (B _ _ _ L) as (c1 & L1 & H1). destruct (A _ _ _ L1) as (c0 & L0 & H0). exists c0. split; [exact L0|lia]. Qed.
Lemma noninc_same s s' : stations s' = stations s -> noninc s s'.
Proof. intros E sid cid cs L. rewrite E in L. exists cs. split; [exact L|lia]. Qed.

Lemma station_op_noninc upd da dq op s sid0 stn cid0 stn' s' : (upd = station_state_update \/ upd = station_state_optional_update) ->
  counter_move da dq op -> da <= 0 -> skeys (stations s) -> find sid0 (stations s) = Some stn -> upd stn cid0 op = Ok stn' ->
  modify_station env s stn' = Ok s' -> noninc s s' /\ skeys (stations s') /\ vehicles s' = vehicles s.
Proof.
  intros Hupd Hop Hda SK F U M. destruct (station_op_effect upd da dq op (stations s) sid0 stn cid0 stn' Hupd Hop SK F U) as (Hid & _ & Eff).
  apply modify_station_spec in M. destruct M as (_ & S & V & _). rewrite Hid in S. split; [|split; [rewrite S, <- Hid; apply skeys_add; exact SK|exact V]].
  intros sid cid cs' L. rewrite S in L. destruct (Eff _ _ _ L) as (cs & L0 & _ & A & _). exists cs. split; [exact L0|].
  rewrite A. destruct (Pos.eqb sid0 sid && Pos.eqb cid0 cid); cbn [b2z]; lia.
Qed.

Lemma charge_noninc s vid sid cid s' : skeys (stations s) -> charge env s vid sid cid = Ok s' -> noninc s s' /\ skeys (stations s').
Proof.
  intros SK H. destruct (charge_ledger env _ _ _ _ _ H) as (v & st & m & c & v1 & _ & Fs & _ & _ & _ & L). cbv zeta in L. destruct L as (_ & S & _).
  assert (Hsid : s_id st = sid) by (apply SK; exact Fs).
  assert (E2 : forall p et k, s_id (tick_energy_dispensed (station_receive_payment st p) et k) = sid) by (intros p et k; destruct et; exact Hsid).
  rewrite E2 in S. split.
  - intros sd cd cs' Lk. rewrite S in Lk. rewrite (slook_add_same (stations s) sid st _ sd cd Fs) in Lk; [exists cs'; split; [exact Lk|lia]|].
    destruct (c_etype c); reflexivity.
  - rewrite S. rewrite <- (E2 (tariff_price st cid (v_energy v1 - v_energy v)%Q) (c_etype c) (v_energy v1 - v_energy v)%Q) at 1. apply skeys_add. exact SK.
Qed.

(* the update of one vehicle that is waiting in a queue *)
Lemma queued_update_noninc vid qs qc t s s' : vkeys s -> skeys (stations s) -> vs_update env vid (ChargeQueueing qs qc t) s = Ok s' ->
  noninc s s' /\ skeys (stations s').
Proof.
  intros K SK H. unfold vs_update in H. destruct (terminal env vid (ChargeQueueing qs qc t) s) eqn:Tm.
  - destruct (default_terminal_state env vid (ChargeQueueing qs qc t) s) as [nx| |] eqn:D; try discriminate.
    assert (Enx : nx = ChargingStation qs qc) by (cbn in D; repeat dmatch D; inv D; reflexivity). subst nx.
    destruct (transition env s (vid, ChargeQueueing qs qc t) (vid, ChargingStation qs qc)) as [s2| |] eqn:T; try discriminate.
    destruct (find vid (vehicles s2)) as [v'|] eqn:Fv'; [|discriminate].
    apply transition_ok_iff in T. destruct T as (s1 & X & N).
    (* exit: leave the queue *)
    cbn in X. unfold exit_charge_queueing in X. repeat dmatch X. inv X.
    match goal with F : find qs (stations s) = Some ?stn, R : dequeue_for_charger ?stn qc = Ok ?stn', M : modify_station _ _ _ = Ok _ |- _ =>
      destruct (station_op_noninc station_state_update 0 (-1) _ s qs stn qc stn' s1 (or_introl eq_refl) move_dequeue ltac:(lia) SK F R M) as (N1 & SK1 & V1) end.
    (* enter: take the plug *)
    cbn in N. unfold enter_charging_station, rbind in N. repeat dmatch N.
    match goal with F : find qs (stations s1) = Some ?stn, R : checkout_charger ?stn qc = Ok ?stn', M : modify_station _ _ _ = Ok ?a |- _ =>
      destruct (station_op_noninc station_state_optional_update (-1) 0 _ s1 qs stn qc stn' a (or_intror eq_refl) move_checkout ltac:(lia) SK1 F R M) as (N2 & SK2 & V2) end.
    apply apply_new_vehicle_state_spec in N. destruct N as (x & Fx & Vx & Sx & _).
    assert (N3 : noninc s s2) by (eapply noninc_trans; [exact N1|]; eapply noninc_trans; [exact N2|apply noninc_same; exact Sx]).
    assert (SK3 : skeys (stations s2)) by (rewrite Sx; exact SK2).
    (* then the first step in the new activity *)
    assert (Est : v_state v' = ChargingStation qs qc).
    { assert (Kx : v_id x = vid) by (apply K; rewrite <- V1, <- V2; exact Fx). unfold find in Fv'. rewrite Vx, Kx, PM.gss in Fv'. inv Fv'. reflexivity. }
    rewrite Est in H. cbn [perform_update] in H. destruct (charge_unless_full_cases env _ _ _ _ _ H) as [->|Hc]; [auto|].
    destruct (charge_noninc _ _ _ _ _ SK3 Hc) as [N4 SK4]. split; [eapply noninc_trans; eauto|exact SK4].
  - cbn [perform_update] in H. repeat dmatch H. apply modify_vehicle_spec in H. destruct H as (_ & _ & S & _). split; [apply noninc_same; exact S|rewrite S; exact SK].
Qed.
Lemma queued_step_noninc vid qs qc t s : vkeys s -> skeys (stations s) ->
  noninc s (step_vehicle env s (vid, ChargeQueueing qs qc t)) /\ skeys (stations (step_vehicle env s (vid, ChargeQueueing qs qc t))).
Proof.
  intros K SK. unfold step_vehicle. cbn [fst snd]. destruct (vs_update env vid (ChargeQueueing qs qc t) s) eqn:E; try (split; [apply noninc_refl|exact SK]).
  eapply queued_update_noninc; eauto.
Qed.

(* a run of queued vehicles *)
Lemma queued_fold_noninc (l : list (id * VState)) : (forall vs, In vs l -> is_queueing (snd vs) = true) -> forall s, vkeys s -> skeys (stations s) ->
  noninc s (fold_left (step_vehicle env) l s) /\ vkeys (fold_left (step_vehicle env) l s) /\ skeys (stations (fold_left (step_vehicle env) l s)).
Proof.
  induction l as [|[vid st] l IH]; intros Hq s K SK; cbn [fold_left]; [split; [apply noninc_refl|auto]|].
  assert (Q : is_queueing st = true) by (apply (Hq (vid, st)); left; reflexivity).
  destruct st; try discriminate Q.
  destruct (queued_step_noninc vid sid cid enqueue_time s K SK) as [N1 SK1].
  destruct (step_vehicle_vonly env s vid (ChargeQueueing sid cid enqueue_time) K) as [K1 _].
  destruct (IH (fun vs I => Hq vs (or_intror I)) _ K1 SK1) as (N2 & K2 & SK2). split; [eapply noninc_trans; eauto|auto].
Qed.

(* the update pass: the state in which the k-th vehicle of the processing order is updated *)
Definition pass_prefix (s : Sim) (l : list Vehicle) : Sim := fold_left (fun acc v => step_vehicle env acc (v_id v, v_state v)) l s.
Lemma pass_prefix_map s l : pass_prefix s l = fold_left (step_vehicle env) (map (fun v => (v_id v, v_state v)) l) s.
Proof. unfold pass_prefix. revert s. induction l as [|x l IH]; intro s; cbn; [reflexivity|apply IH]. Qed.

(* FIFO offer: w before u in the queued part; if u finds a plug of type (sid, cid) free at its turn, so did w at its turn *)
Theorem offered_in_queue_order s l1 w l2 u l3 sid cid : vkeys s -> Inv_counts s ->
  queued_part s = l1 ++ w :: l2 ++ u :: l3 ->
  let s_w := pass_prefix s (other_part s ++ l1) in
  let s_u := pass_prefix s (other_part s ++ l1 ++ w :: l2) in
  forall cs_u, slook (stations s_u) sid cid = Some cs_u -> 0 < cs_avail cs_u ->
  exists cs_w, slook (stations s_w) sid cid = Some cs_w /\ 0 < cs_avail cs_w.
Proof.
  intros K IC E. cbv zeta. intros cs_u L Pos.
  assert (Split : pass_prefix s (other_part s ++ l1 ++ w :: l2) = pass_prefix (pass_prefix s (other_part s ++ l1)) (w :: l2)).
  { unfold pass_prefix. rewrite app_assoc, fold_left_app. reflexivity. }
  rewrite Split in L. set (s_w := pass_prefix s (other_part s ++ l1)) in *.
  (* keys at s_w: the pass so far is a sequence of macro steps, which keep the counts invariant (hence the station keys) *)
  assert (KS : vkeys s_w /\ skeys (stations s_w)).
  { unfold s_w. rewrite pass_prefix_map.
    assert (Pre : update_order s = (other_part s ++ l1) ++ (w :: l2 ++ u :: l3)) by (rewrite update_order_split, E, <- app_assoc; reflexivity).
    pose proof (update_order_ids_NoDup s K) as Nd. rewrite Pre, map_app in Nd. apply NoDup_app_l in Nd.
    destruct (fold_vehicles_macro env true (map (fun v => (v_id v, v_state v)) (other_part s ++ l1))) with (s := s) as [M Kw]; auto.
    - rewrite map_map. cbn. exact Nd.
    - intros vs I. apply in_map_iff in I. destruct I as (x & <- & Ix). cbn. apply update_order_states; auto. rewrite Pre. apply in_or_app. left. exact Ix.
    - split; [exact Kw|]. destruct (mstar_invariantA env true Inv_counts (fun a b Ka Ia Mab => mstep_counts env a b Ka Ia Mab) _ _ M K IC) as [_ (SKw & _)]. exact SKw. }
  destruct KS as [Kw Sw].
  assert (Hq : forall vs, In vs (map (fun v => (v_id v, v_state v)) (w :: l2)) -> is_queueing (snd vs) = true).
  { intros vs I. apply in_map_iff in I. destruct I as (x & <- & Ix). cbn.
    assert (Iq : In x (queued_part s)) by (rewrite E; apply in_or_app; right; destruct Ix as [<-|Ix]; [left; reflexivity|right; apply in_or_app; left; exact Ix]).
    apply queued_part_In in Iq. tauto. }
  rewrite pass_prefix_map in L. destruct (queued_fold_noninc _ Hq s_w Kw Sw) as (N & _ & _).
  destruct (N _ _ _ L) as (cs_w & Lw & Le). exists cs_w. split; [exact Lw|lia].
Qed.

(* ... and a vehicle that is offered the plug and whose update goes through has left the queue: it is charging *)
Lemma mech_add_energy_keeps_state (m : Mech) v c t : v_state (fst (mech_add_energy m v c t)) = v_state v.
Proof.
  unfold mech_add_energy. destruct (m_kind m).
  - unfold bev_add_energy. destruct (negb (bev_valid_charger m c)); [reflexivity|].
    destruct (Qltb (c_rate c) (m_taper m)); [reflexivity|].
    destruct (powercurve_charge m (v_energy v) (m_cap m - m_full_thr m) (c_rate c) t). reflexivity.
  - unfold ice_add_energy. destruct (negb (ice_valid_charger m c)); reflexivity.
Qed.
Theorem offered_and_updated_leaves_queue vid qs qc t s s' : vkeys s -> terminal env vid (ChargeQueueing qs qc t) s = true ->
  vs_update env vid (ChargeQueueing qs qc t) s = Ok s' -> vstate_of s' vid = Some (ChargingStation qs qc).
Proof.
  intros K Tm H. unfold vs_update in H. rewrite Tm in H.
  destruct (default_terminal_state env vid (ChargeQueueing qs qc t) s) as [nx| |] eqn:D; try discriminate.
  assert (Enx : nx = ChargingStation qs qc) by (cbn in D; repeat dmatch D; inv D; reflexivity). subst nx.
  destruct (transition env s (vid, ChargeQueueing qs qc t) (vid, ChargingStation qs qc)) as [s2| |] eqn:T; try discriminate.
  destruct (find vid (vehicles s2)) as [v'|] eqn:Fv'; [|discriminate].
  destruct (transition_vonly env _ _ _ _ _ T K) as [K2 _].
  apply transition_ok_iff in T. destruct T as (s1 & X & N).
  assert (V1 : vehicles s1 = vehicles s) by (eapply vs_exit_same; eauto).
  assert (K1 : vkeys s1) by (unfold vkeys; rewrite V1; exact K).
  assert (Est : v_state v' = ChargingStation qs qc).
  { cbn in N. unfold enter_charging_station, rbind in N. repeat dmatch N.
    match goal with M : modify_station _ _ _ = Ok ?a |- _ => apply modify_station_spec in M; destruct M as (_ & _ & Va & _) end.
    apply apply_new_vehicle_state_spec in N. destruct N as (x & Fx & Vx & _).
    assert (Kx : v_id x = vid) by (apply K1; rewrite <- Va; exact Fx). unfold find in Fv'. rewrite Vx, Kx, PM.gss in Fv'. inv Fv'. reflexivity. }
  rewrite Est in H. cbn [perform_update] in H. destruct (charge_unless_full_cases env _ _ _ _ _ H) as [->|Hc].
  - unfold vstate_of. rewrite Fv'. cbn. rewrite Est. reflexivity.
  - destruct (charge_ledger env _ _ _ _ _ Hc) as (v0 & st & m & c & v1 & Fv0 & _ & _ & _ & Ev1 & L). cbv zeta in L. destruct L as (V & _).
    rewrite Fv' in Fv0. inv Fv0. assert (Hid : v_id v0 = vid) by (apply K2; exact Fv').
    unfold vstate_of, find. rewrite V. cbn [v_id veh_send_payment set]. cbn. rewrite mech_add_energy_id, Hid, PM.gss. cbn.
    rewrite mech_add_energy_keeps_state. rewrite Est. reflexivity.
Qed.

(* ---------- the head of the queue is served: its update cannot be refused when a plug of its type is free ---------- *)
Section Total.
Hypothesis fence_ok : forall g, e_fence env g = true.

Lemma modify_station_total s x old : find (s_id x) (stations s) = Some old -> s_geoid old = s_geoid x -> exists s', modify_station env s x = Ok s'.
Proof. intros F G. unfold modify_station. rewrite F, G, Pos.eqb_refl, fence_ok. cbn. eauto. Qed.
Lemma modify_vehicle_total s w old : find (v_id w) (vehicles s) = Some old -> exists s', modify_vehicle env s w = Ok s'.
Proof.
  intro F. unfold modify_vehicle. rewrite F, fence_ok. cbn.
  destruct (update_entity_dicts v_geoid v_id (e_parent env) old w (vehicles s) (v_loc s) (v_search s)) as [[a b] c]. eauto.
Qed.
Lemma valid_charger_etype m c : mech_valid_charger m c = true -> etype_eqb (c_etype c) (mech_etype m) = true.
Proof. unfold mech_valid_charger, mech_etype, bev_valid_charger, ice_valid_charger. destruct (m_kind m); auto. Qed.

(* can_use: the vehicle's powertrain is known and accepts the plug type it queues for *)
Definition can_use (s : Sim) (v : Vehicle) (qs qc : id) : Prop :=
  exists m, e_mech env (v_mech v) = Some m /\
    forall stn c, find qs (stations s) = Some stn -> get_charger_instance stn qc = Ok c -> mech_valid_charger m c = true.

Theorem offered_plug_is_taken s vid v qs qc t : vkeys s -> Inv_counts s -> Inv_place s ->
  find vid (vehicles s) = Some v -> v_state v = ChargeQueueing qs qc t -> can_use s v qs qc ->
  terminal env vid (ChargeQueueing qs qc t) s = true ->
  exists s', vs_update env vid (ChargeQueueing qs qc t) s = Ok s'.
Proof.
  intros K IC IP Fv Est (m & Em & Use) Tm. pose proof IC as (SK & _ & CS & _). destruct IP as (_ & _ & PL).
  assert (Hid : v_id v = vid) by (apply K; exact Fv).
  pose proof (PL _ _ Fv) as P. unfold placed in P. rewrite Est in P. destruct P as (stn & Fs & Geo & Acc).
  assert (Hsid : s_id stn = qs) by (apply SK; exact Fs).
  cbn in Tm. rewrite Fs in Tm. unfold has_available_charger in Tm. destruct (find qc (s_state stn)) as [cs|] eqn:Fc; [|discriminate].
  assert (L : slook (stations s) qs qc = Some cs) by (unfold slook; rewrite Fs; exact Fc).
  destruct (CS _ _ _ L) as (A0 & _ & Q).
  assert (Enq : 1 <= cs_enq cs).
  { rewrite Q. pose proof (cnt_add (queues qs qc) vid v (vehicles s)) as CA. unfold find in Fv. rewrite Fv in CA.
    assert (Same : PM.add vid v (vehicles s) = vehicles s).
    { clear -Fv. revert Fv. generalize (vehicles s). induction vid as [k IH|k IH|]; intros [|l o r] F; cbn in *; try discriminate; try (rewrite IH by exact F; reflexivity). inversion F. reflexivity. }
    rewrite Same in CA. assert (Qv : queues qs qc v = true) by (unfold queues; rewrite Est; cbn; rewrite !Pos.eqb_refl; reflexivity).
    pose proof (cnt_add (queues qs qc) vid (v <| v_state := OutOfService |>) (vehicles s)) as CB. rewrite Fv in CB. unfold b2z in *. rewrite Qv in *. cbn in CB.
    pose proof (cnt_nonneg (queues qs qc) (PM.add vid (v <| v_state := OutOfService |>) (vehicles s))). lia. }
  unfold vs_update. cbn [terminal]. rewrite Fs. unfold has_available_charger. rewrite Fc, Tm.
  cbn [default_terminal_state]. rewrite Fv, Fs. unfold has_available_charger. rewrite Fc, Tm. cbn [negb].
  (* exit: leave the queue *)
  assert (X : exists s1, vs_exit env (vid, ChargeQueueing qs qc t) (vid, ChargingStation qs qc) s = Ok s1 /\ vehicles s1 = vehicles s /\
              stations s1 = PM.add qs (stn <| s_state := PM.add qc (cs <| cs_enq := cs_enq cs - 1 |>) (s_state stn) |>) (stations s)).
  { cbn. unfold exit_charge_queueing. rewrite Fs. unfold dequeue_for_charger, station_state_update. rewrite Fc. unfold cs_decrement_enqueued.
    destruct (Z.eqb_spec (cs_enq cs) 0) as [Z0|_]; [lia|].
    destruct (modify_station_total s (stn <| s_state := PM.add qc (cs <| cs_enq := cs_enq cs - 1 |>) (s_state stn) |>) stn) as [s1 M]; [cbn; rewrite Hsid; exact Fs|reflexivity|].
    rewrite M. exists s1. split; [reflexivity|]. apply modify_station_spec in M. cbn in M. rewrite Hsid in M. intuition. }
  destruct X as (s1 & X & V1 & S1).
  set (stn1 := stn <| s_state := PM.add qc (cs <| cs_enq := cs_enq cs - 1 |>) (s_state stn) |>) in *.
  assert (Fs1 : find qs (stations s1) = Some stn1) by (unfold find; rewrite S1; apply PM.gss).
  assert (Fc1 : find qc (s_state stn1) = Some (cs <| cs_enq := cs_enq cs - 1 |>)) by (unfold stn1, find; cbn; apply PM.gss).
  assert (Fv1 : find vid (vehicles s1) = Some v) by (rewrite V1; exact Fv).
  (* enter: take the plug *)
  assert (N : exists s2 v2, vs_enter env (vid, ChargingStation qs qc) s1 = Ok s2 /\ find vid (vehicles s2) = Some v2 /\ v_state v2 = ChargingStation qs qc /\
              v_mech v2 = v_mech v /\ v_id v2 = vid /\ v_energy v2 = v_energy v /\
              exists stn2, find qs (stations s2) = Some stn2 /\ s_id stn2 = qs /\ s_geoid stn2 = s_geoid stn /\ get_charger_instance stn2 qc = Ok (cs_charger cs)).
  { cbn. unfold enter_charging_station. rewrite Fv1, Fs1, Em.
    assert (G1 : s_geoid stn1 = s_geoid stn) by reflexivity. rewrite G1, Geo, Pos.eqb_refl. cbn [negb].
    assert (M1 : s_mem stn1 = s_mem stn) by reflexivity. rewrite M1. unfold grants in Acc. rewrite Acc. cbn [negb].
    unfold get_charger_instance at 1. rewrite Fc1. cbn [cs_charger set].
    assert (Uc : mech_valid_charger m (cs_charger cs) = true) by (apply (Use stn); [exact Fs|unfold get_charger_instance; rewrite Fc; reflexivity]).
    rewrite Uc. cbn [negb]. unfold rbind, checkout_charger, station_state_optional_update. rewrite Fc1.
    assert (Hav : cs_has_available_charger (cs <| cs_enq := cs_enq cs - 1 |>) = true) by exact Tm. rewrite Hav. cbn [negb].
    unfold cs_decrement_available. assert (Av : 0 < cs_avail cs) by (apply Z.ltb_lt; exact Tm).
    cbn [cs_avail set]. destruct (Z.eqb_spec (cs_avail cs) 0) as [Z0|_]; [lia|].
    set (cs2 := set cs_avail (fun _ => cs_avail cs - 1) (cs <| cs_enq := cs_enq cs - 1 |>)).
    set (stn2 := stn1 <| s_state := PM.add qc cs2 (s_state stn1) |>).
    destruct (modify_station_total s1 stn2 stn1) as [sa Ma]; [cbn; rewrite Hsid; exact Fs1|reflexivity|].
    rewrite Ma. pose proof (modify_station_spec env _ _ _ Ma) as (_ & Sa & Va & _). cbn in Sa. rewrite Hsid in Sa.
    unfold apply_new_vehicle_state. rewrite Va, Fv1.
    destruct (modify_vehicle_total sa (v <| v_state := ChargingStation qs qc |>) v) as [s2 Mv]; [cbn; rewrite Hid, Va; exact Fv1|].
    rewrite Mv. exists s2, (v <| v_state := ChargingStation qs qc |>). split; [reflexivity|].
    pose proof (modify_vehicle_spec env _ _ _ Mv) as (_ & V2 & S2 & _). cbn in V2. rewrite Hid in V2.
    split; [unfold find; rewrite V2; apply PM.gss|]. repeat (split; [reflexivity || exact Hid|]).
    exists stn2. split; [unfold find; rewrite S2, Sa; apply PM.gss|]. split; [exact Hsid|]. split; [reflexivity|].
    unfold get_charger_instance, stn2, find. cbn. rewrite PM.gss. reflexivity. }
  destruct N as (s2 & v2 & N & Fv2 & St2 & Mech2 & Id2 & En2 & stn2 & Fs2 & Hs2 & G2 & Ch2).
  assert (T : transition env s (vid, ChargeQueueing qs qc t) (vid, ChargingStation qs qc) = Ok s2) by (apply transition_ok_iff; eauto).
  rewrite T, Fv2, St2. cbn [perform_update]. unfold charge_unless_full. rewrite Fv2, Mech2, Em.
  destruct (mech_is_full m v2) eqn:Full; [eauto|].
  (* the first charge step *)
  unfold charge. rewrite Fs2, Fv2, Mech2, Em, Ch2, Full.
  rewrite (valid_charger_etype m (cs_charger cs)) by (apply (Use stn); [exact Fs|unfold get_charger_instance; rewrite Fc; reflexivity]). cbn [negb].
  destruct (mech_add_energy m v2 (cs_charger cs) (dt s2)) as [charged tsec] eqn:Add.
  match goal with |- exists s', match modify_vehicle env s2 ?w with _ => _ end = Ok s' =>
    assert (Hw : v_id w = vid) by (cbn; pose proof (mech_add_energy_id m v2 (cs_charger cs) (dt s2)) as Ei; rewrite Add in Ei; cbn in Ei; congruence);
    destruct (modify_vehicle_total s2 w v2) as [s3 M3]; [rewrite Hw; exact Fv2|]; rewrite M3 end.
  pose proof (modify_vehicle_spec env _ _ _ M3) as (_ & _ & S3 & _).
  match goal with |- exists s', modify_station env ?sx ?x = Ok s' => destruct (modify_station_total sx x stn2) as [s4 M4] end.
  - cbn [emit stations set]. rewrite S3. destruct (c_etype (cs_charger cs)); cbn; rewrite Hs2; exact Fs2.
  - destruct (c_etype (cs_charger cs)); reflexivity.
  - eauto.
Qed.
End Total.
End Q.
