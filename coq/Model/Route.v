(* Model/Route.v — hand-written model of route assembly on a street graph (osm_roadnetwork.route,
   osm_roadnetwork_ops.route_from_nx_path / resolve_route_src_dst_positions), of the straight-line network's route, of
   roadnetwork.position_from_geoid, and the executable shortest-path certificate checker used by harness/eng_c13.py.
   networkx.astar_path, the cKDTree nearest-link lookup and h3 are oracles. *)
From Hive.Base Require Import Prelude.
From Hive.Model Require Import Types.

Definition node := positive.

(* osm_roadnetwork_ops.route_from_nx_path *)
Fixpoint links_of_path (tab : linkid -> option LinkT) (p : list node) : option Route :=
  match p with
  | [] => Some []
  | [_] => Some []
  | u :: ((v :: _) as rest) =>
      match tab (u, v), links_of_path tab rest with
      | Some l, Some r => Some (l :: r)
      | _, _ => None
      end
  end.

(* OSMRoadNetwork.route.  astar src dst : the node path networkx returns *)
Definition osm_route (tab : linkid -> option LinkT) (astar : node -> node -> list node) (o d : Pos) : Route :=
  if pos_eqb o d then []
  else
    match links_of_path tab (astar (snd (p_link o)) (fst (p_link d))) with
    | None => []
    | Some inner =>
        match tab (p_link o), tab (p_link d) with
        | Some sl, Some dl => (sl <| l_start := p_geoid o |>) :: inner ++ [dl <| l_end := p_geoid d |>]
        | _, _ => []
        end
    end.

(* roadnetwork.position_from_geoid: nearest : the link the cKDTree lookup returns; line : h3.h3_line; closest : the first of
   the link's cells in (h3_distance, cell) order *)
Definition position_from_geoid (nearest : geoid -> option LinkT) (line : geoid -> geoid -> list geoid)
           (closest : geoid -> list geoid -> geoid) (g : geoid) : option Pos :=
  match nearest g with
  | None => None
  | Some l =>
      let cells := line (l_start l) (l_end l) in
      if existsb (Pos.eqb g) cells then Some (mkPos (l_id l) g) else Some (mkPos (l_id l) (closest g cells))
  end.

(* ---- shortest-path certificate (C14): node potentials ---- *)
Definition edge := (node * node * Q)%type.
Fixpoint path_weight (w : node -> node -> option Q) (p : list node) : option Q :=
  match p with
  | [] => Some 0%Q
  | [_] => Some 0%Q
  | u :: ((v :: _) as rest) =>
      match w u v, path_weight w rest with
      | Some x, Some y => Some (x + y)%Q
      | _, _ => None
      end
  end.
Definition feasible_b (edges : list edge) (pot : node -> Q) : bool :=
  forallb (fun e => let '(u, v, x) := e in Qleb (pot v) (pot u + x)) edges.
