"""Texts for MANIFEST.json (level claimed per property).  Kept next to the registry so both stay current."""
NOTES = ('Technique family: machine-checked proof in Coq 8.16.1.  Every check regenerates coq/Gen from /repo, rebuilds the .vo files, '
         'audits Print Assumptions, runs the model/implementation correspondence and the implementation-side monitors, and applies the '
         'verdict logic of DESIGN.md §3.4.  KNOWN_FINDINGS.txt lists fixed and known findings.')
COMMON_NOTE = ('Trusted: Coq kernel; tools/py2v translator; hand-written step model (tied by differential correspondence only); harness; '
               'oracle hypotheses named in the evidence; floats modelled as exact rationals with 1e-9 relative tolerance.')
CLAIMED = {
 'C04': dict(
   text=('Proved for all inputs: the consume/idle/add_energy kernels of both powertrains (regenerated from bev.py, ice.py, tabular_powercurve.py, vehicle.py '
         'on every run) keep the level in [0, capacity], book exactly the amount removed/added, expend strictly positively for positive distance/time, '
         'never lower the level when charging and never add more than rate x duration for ANY step length and curve step (induction over the integrator loop). '
         'The step-level running balance over whole histories is checked by correspondence + monitors (not yet a theorem: labelled partial).'),
   note=COMMON_NOTE + ' Hypotheses train_ok/curve_ok (positive sorted tables) are checked on every generated mechatronics.',
   technique='Coq proof over translated kernels (Q arithmetic, induction on loop fuel) + differential correspondence of the step model'),
}
CLAIMED['C08'] = dict(
   text=('Proved with no bound on sizes or history length: Inv_idx (each of the eight index maps lists exactly the ids of the entities at that cell / under that search '
         'cell, no empty and no duplicated entries) holds in every state built by adding entities to the empty state and is preserved by EVERY operation: raw add / '
         'modify / remove / pop of all four kinds and every step operation (instructions from any controller, vehicle updates, admissions, cancellations, prices, drivers, tick) — '
         'the latter through the frame theorem step_op_reach (every model function writes only through modify_*/add_request/remove_request). Stations/bases cannot move (modify_* = Err). '
         'The model of simulation_state_ops/dict_ops is hand-written and tied to /repo by correspondence on raw-op and step histories.'),
   note=COMMON_NOTE + ' h3_to_parent is an arbitrary function in the theorem; geofence constant True.',
   technique='Coq proof: inductive invariant over all operations + frame theorem; differential correspondence incl. raw-op histories')
NOT_CLAIMED = {}
