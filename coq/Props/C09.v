(* Props/C09.v — property theorems only.  C09: instructions apply all-or-nothing, one per vehicle per step.
   transition (the generated transition_previous_to_next over the model's exit/enter) yields a new state iff exit AND
   enter both succeeded; otherwise apply_instructions keeps the WHOLE previous Sim record (applied_instructions included);
   a refused instruction is exactly as if it had not been in the batch; the instruction that takes part for a vehicle is
   the last one pushed — the driver's if the driver issued one. *)
From Hive.Base Require Import Prelude.
From Hive.Model Require Import Types KernelBase SimOps States Step Stack.
From Hive.Gen Require Import Kernels.
From Hive.Proofs Require Import Atomic.

Theorem C09_transition_all_or_nothing : forall env s p n s', transition env s p n = Ok s' <->
  exists s1, vs_exit env p n s = Ok s1 /\ vs_enter env n s1 = Ok s'.
Proof. exact transition_ok_iff. Qed.
Theorem C09_rejected_unchanged : forall env s i r, (forall s', transition env s (fst r) (snd r) <> Ok s') ->
  apply_phase2 env s (i, r) = s.
Proof. exact rejected_unchanged. Qed.
Theorem C09_accepted_recorded : forall env s i r s', transition env s (fst r) (snd r) = Ok s' ->
  apply_phase2 env s (i, r) = s' <| applied := PM.add (instr_vid i) i (applied s') |>.
Proof. exact accepted_recorded. Qed.
Theorem C09_refused_is_skipped : forall env l1 x l2 s,
  apply_phase2 env (fold_left (apply_phase2 env) l1 s) x = fold_left (apply_phase2 env) l1 s ->
  fold_left (apply_phase2 env) (l1 ++ x :: l2) s = fold_left (apply_phase2 env) (l1 ++ l2) s.
Proof. exact refused_is_skipped. Qed.
Theorem C09_precedence : forall gens drivers vid,
  top (build_stack gens drivers) vid = last_for vid (concat gens ++ drivers) None.
Proof. exact stack_precedence. Qed.
Theorem C09_driver_has_final_word : forall gens drivers vid i, In i drivers -> instr_vid i = vid ->
  exists j, top (build_stack gens drivers) vid = Some j /\ In j drivers /\ instr_vid j = vid.
Proof. exact driver_has_final_word. Qed.
Print Assumptions C09_transition_all_or_nothing. Print Assumptions C09_rejected_unchanged. Print Assumptions C09_accepted_recorded.
Print Assumptions C09_refused_is_skipped. Print Assumptions C09_precedence. Print Assumptions C09_driver_has_final_word.
