(* Proofs/RouteInv.v — C07 (second sentence) over whole histories: a travelling vehicle's planned route is a connected walk that
   starts at the vehicle's current place and ends at the entity it was sent to (station, base, the request it is assigned to),
   so that when the route is exhausted the vehicle is at that entity.  Hypotheses on the environment: the road network's router
   answers with a walk from the origin to the destination (C13 for the OSM network, immediate for the haversine network), and
   the step length is positive. *)
From Hive.Base Require Import Prelude.
From Hive.Model Require Import Types KernelBase SimOps States Step.
From Hive.Gen Require Import Kernels.
From Hive.Proofs Require Import SimFacts Reach Clock VehFrame Atomic Trip Macro Guards Count CountInv DispInv PlaceInv Traverse Walk.

Section R.
Variable env : Env.
Hypothesis router_ok : forall a b, walk (p_geoid a) (e_route env a b) = Some (p_geoid b).
Ltac inv H := inversion H; subst; clear H.
Ltac dmatch H :=
  match type of H with
  | context [match ?x with _ => _ end] =>
      lazymatch x with
      | context [match _ with _ => _ end] => fail
      | _ => let E := fresh "E" in destruct x eqn:E; try discriminate
      end
  end.

Definition on_route (s : Sim) (v : Vehicle) : Prop :=
  match v_state v with
  | Repositioning r => exists h, walk (v_geoid v) r = Some h
  | ServicingTrip q _ r => walk (v_geoid v) r = Some (p_geoid (r_dest q))
  | DispatchTrip rid r =>
      exists h, walk (v_geoid v) r = Some h /\ forall q, find rid (requests s) = Some q -> r_disp q = Some (v_id v) -> h = r_geoid q
  | DispatchStation sid _ r => exists h x, walk (v_geoid v) r = Some h /\ find sid (stations s) = Some x /\ h = s_geoid x
  | DispatchBase bid r => exists h b, walk (v_geoid v) r = Some h /\ find bid (bases s) = Some b /\ h = b_geoid b
  | _ => True
  end.
Definition Inv_route (s : Sim) : Prop :=
  (0 < dt s)%Z /\ skeys (stations s) /\ bkeys (bases s) /\ forall vid v, find vid (vehicles s) = Some v -> on_route s v.

(* when the route is exhausted the vehicle is at the entity *)
Lemma arrived s v : on_route s v ->
  match v_state v with
  | DispatchStation sid _ [] => exists x, find sid (stations s) = Some x /\ v_geoid v = s_geoid x
  | DispatchBase bid [] => exists b, find bid (bases s) = Some b /\ v_geoid v = b_geoid b
  | DispatchTrip rid [] => forall q, find rid (requests s) = Some q -> r_disp q = Some (v_id v) -> v_geoid v = r_geoid q
  | ServicingTrip q _ [] => v_geoid v = p_geoid (r_dest q)
  | _ => True
  end.
Proof.
  unfold on_route. destruct (v_state v); auto; destruct route; auto.
  - intros (h & W & T) q F D. cbn in W. inv W. eauto.
  - intro W. cbn in W. congruence.
  - intros (h & x & W & F & T). cbn in W. inv W. eauto.
  - intros (h & b & W & F & T). cbn in W. inv W. eauto.
Qed.

(* ---------- frames ---------- *)
Lemma on_route_frame s s' v : sframe s s' ->
  (forall rid route, v_state v = DispatchTrip rid route -> forall q', find rid (requests s') = Some q' -> r_disp q' = Some (v_id v) ->
     exists q, find rid (requests s) = Some q /\ r_disp q = Some (v_id v) /\ r_pos q = r_pos q') ->
  on_route s v -> on_route s' v.
Proof.
  intros [FS FB] FR. unfold on_route. destruct (v_state v) eqn:Est; auto.
  - intros (h & W & T). exists h. split; [exact W|]. intros q' Fq Dq. destruct (FR _ _ eq_refl _ Fq Dq) as (q & F0 & D0 & P0).
    rewrite (T q F0 D0). unfold r_geoid. rewrite P0. reflexivity.
  - intros (h & x & W & F & T). destruct (FS _ _ F) as (x' & F' & (_ & P & _)). exists h, x'. unfold s_geoid in *. rewrite P. auto.
  - intros (h & b & W & F & T). destruct (FB _ _ F) as (b' & F' & (_ & P & _)). exists h, b'. unfold b_geoid in *. rewrite P. auto.
Qed.
Lemma others_on_route s s' vid : Inv_route s -> vkeys s -> sframe s s' -> rframe (Some vid) s s' ->
  (forall k, k <> vid -> find k (vehicles s') = find k (vehicles s)) ->
  forall k u, k <> vid -> find k (vehicles s') = Some u -> on_route s' u.
Proof.
  intros (_ & _ & _ & I) K Fr Rf Oth k u N Fu. rewrite Oth in Fu by exact N.
  apply (on_route_frame s s' u Fr); [|eapply I; eauto].
  intros rid route _ q' Fq Dq. destruct (Rf rid q' (v_id u) Fq Dq) as (q & A1 & B1 & _ & C1); [rewrite (K _ _ Fu); congruence|eauto].
Qed.
Lemma Inv_route_step s s' vid : Inv_route s -> vkeys s -> dt s' = dt s -> sframe s s' -> skeys (stations s') -> bkeys (bases s') ->
  rframe (Some vid) s s' -> (forall k, k <> vid -> find k (vehicles s') = find k (vehicles s)) ->
  (forall w, find vid (vehicles s') = Some w -> on_route s' w) -> Inv_route s'.
Proof.
  intros I K Dt Fr SK' BK' Rf Oth Me. split; [rewrite Dt; apply I|]. split; [exact SK'|]. split; [exact BK'|]. intros k u Fu.
  destruct (Pos.eq_dec k vid) as [->|N]; [apply Me; exact Fu|eapply others_on_route; eauto].
Qed.
Lemma Inv_route_ext s s' : vehicles s' = vehicles s -> stations s' = stations s -> bases s' = bases s -> dt s' = dt s ->
  rframe None s s' -> Inv_route s -> Inv_route s'.
Proof.
  intros V S B Dt Rf (D & SK & BK & I). split; [rewrite Dt; exact D|]. split; [rewrite S; exact SK|]. split; [rewrite B; exact BK|].
  intros k u Fu. rewrite V in Fu. apply (on_route_frame s s' u (sframe_same _ _ S B)); [|eapply I; eauto].
  intros rid route _ q' Fq Dq. destruct (Rf rid q' (v_id u) Fq Dq) as (q & A1 & B1 & _ & C1); [discriminate|eauto].
Qed.

Lemma reach_dt A T s s' : Reach env A T s s' -> dt s' = dt s.
Proof. induction 1 as [|s1 s2 s3 P _ IH]; [reflexivity|]. rewrite IH. apply (proj1 (prim_clock env A T _ _ P)). Qed.

(* ---------- transition: the router's answer from the vehicle's place, ending where the guard says ---------- *)
Lemma route_end_target r src dst h : walk (p_geoid src) r = Some h -> route_corr r src (Some dst) = true -> h = p_geoid dst.
Proof.
  intros W C. apply route_corr_spec in C. destruct r as [|l0 r]; [cbn in W; congruence|].
  destruct C as [_ C]. rewrite <- C. symmetry. apply (walk_last (l0 :: r) (p_geoid src) h l0); [discriminate|exact W].
Qed.

(* the activity actually entered is the instructed one, or (DispatchStation at the station already) one without a route *)
Lemma anvs_state s vid st s' w : vkeys s -> apply_new_vehicle_state env s vid st = Ok s' -> find vid (vehicles s') = Some w -> v_state w = st.
Proof.
  intros K A F. destruct (anvs_map env _ _ _ _ K A) as (x & _ & V & _). unfold find in F. rewrite V, PM.gss in F. inv F. reflexivity.
Qed.
Lemma enter_state_alt vid nx s1 s' w : vkeys s1 -> vs_enter env (vid, nx) s1 = Ok s' -> find vid (vehicles s') = Some w ->
  v_state w = nx \/ state_route (v_state w) = None.
Proof.
  intros K N Fw.
  assert (Same : forall a st, vehicles a = vehicles s1 -> apply_new_vehicle_state env a vid st = Ok s' -> v_state w = st).
  { intros a st V A. apply (anvs_state a vid st s' w); auto. unfold vkeys. rewrite V. exact K. }
  assert (CS : forall sid cid, enter_charging_station env vid sid cid s1 = Ok s' -> v_state w = ChargingStation sid cid).
  { intros sid cid H. unfold enter_charging_station, rbind in H. repeat dmatch H.
    match goal with M : modify_station _ _ _ = Ok ?a |- _ => apply modify_station_spec in M; destruct M as (_ & _ & V & _) end. eapply Same; eauto. }
  unfold vs_enter in N. destruct nx; try (left; eapply (Same s1); eauto; fail).
  - left. unfold enter_repositioning in N. repeat dmatch N. eapply (Same s1); eauto.
  - left. unfold enter_dispatch_trip in N. repeat dmatch N.
    match goal with M : modify_request _ _ _ = Ok ?a |- _ => apply modify_request_spec in M; destruct M as (_ & _ & V & _) end. eapply Same; eauto.
  - left. unfold enter_servicing_trip, rbind in N. repeat dmatch N.
    match goal with M : pick_up_trip _ _ _ _ = Ok ?a0 |- _ => rename a0 into a; apply pick_up_trip_spec in M; destruct M as (pv & pr & Fpv & _ & Ev & _) end.
    apply (anvs_state a vid _ s' w); auto. assert (Hpv : v_id pv = vid) by (apply K; exact Fpv).
    intros k x Fk. unfold find in Fk. rewrite Ev, Hpv in Fk. destruct (Pos.eq_dec k vid) as [->|Nk].
    + rewrite PM.gss in Fk. injection Fk as Ex. rewrite <- Ex. exact Hpv.
    + rewrite PM.gso in Fk by exact Nk. apply K. exact Fk.
  - unfold enter_dispatch_station in N. repeat dmatch N; [right; rewrite (CS _ _ N); reflexivity|left; eapply (Same s1); eauto].
  - left. apply CS. exact N.
  - left. unfold enter_charge_queueing, rbind in N. repeat dmatch N.
    match goal with M : modify_station _ _ _ = Ok ?a |- _ => apply modify_station_spec in M; destruct M as (_ & _ & V & _) end. eapply Same; eauto.
  - left. unfold enter_dispatch_base in N. repeat dmatch N. eapply (Same s1); eauto.
  - left. unfold enter_reserve_base, rbind in N. repeat dmatch N.
    match goal with M : modify_base _ _ _ = Ok ?a |- _ => apply modify_base_spec in M; destruct M as (_ & _ & V & _) end. eapply Same; eauto.
  - left. unfold enter_charging_base, rbind in N. repeat dmatch N.
    match goal with M : modify_base _ _ _ = Ok ?a |- _ => apply modify_base_spec in M; destruct M as (_ & _ & V & _) end.
    match goal with M : modify_station _ _ _ = Ok ?a |- _ => apply modify_station_spec in M; destruct M as (_ & _ & V2 & _) end.
    eapply Same; [|eauto]. congruence.
Qed.

Lemma transition_route s vid st nx s' : Inv_route s -> vkeys s -> vstate_of s vid = Some st ->
  transition env s (vid, st) (vid, nx) = Ok s' -> sourced env s vid nx -> Inv_route s'.
Proof.
  intros I K Hst T Src. pose proof I as (D & SK & BK & _).
  pose proof (reach_dt NoAdd False _ _ (transition_reach env NoAdd False _ _ _ _ T)) as Dt.
  destruct (transition_vonly env _ _ _ _ _ T K) as [K' Oth].
  apply transition_ok_iff in T. destruct T as (s1 & X & N).
  destruct (exit_sframe env _ _ _ _ _ SK BK X) as (Fr1 & SK1 & BK1).
  assert (V1 : vehicles s1 = vehicles s) by (eapply vs_exit_same; eauto).
  assert (K1 : vkeys s1) by (unfold vkeys; rewrite V1; exact K).
  destruct (enter_sframe env _ _ _ _ SK1 BK1 N) as (Fr2 & SK2 & BK2).
  pose proof (exit_rframe env _ _ _ _ _ X) as R1. pose proof (enter_rframe env _ _ _ _ K1 N) as R2.
  apply (Inv_route_step s s' vid I K Dt (sframe_trans _ _ _ Fr1 Fr2) SK2 BK2 (rframe_trans _ _ _ _ (rframe_weaken _ _ _ R1) R2) Oth).
  intros w Fw. destruct (enter_vehicle env _ _ _ _ K1 N) as (v & st' & w' & Fv & G & Fw' & Es & Em & Ep & Ei). rewrite Fw in Fw'. inv Fw'.
  pose proof (enter_state_alt _ _ _ _ _ K1 N Fw) as Hst'.
  rewrite V1 in Fv.
  unfold on_route. destruct Hst' as [E|E]; [|destruct (v_state w'); cbn in E; try discriminate E; exact Logic.I].
  assert (W : forall r, state_route nx = Some r -> exists h, walk (v_geoid w') r = Some h /\ forall dst, route_corr r (v_pos v) (Some dst) = true -> h = p_geoid dst).
  { intros r Hr. destruct (Src r Hr) as (a & b & v0 & -> & F0 & Ga & _). rewrite Fv in F0. inv F0.
    exists (p_geoid b). unfold v_geoid. rewrite Ep. fold (v_geoid v0). rewrite <- Ga. split; [apply router_ok|].
    intros dst C. apply (route_end_target (e_route env a b) (v_pos v0) dst); [unfold v_geoid in Ga; rewrite <- Ga; apply router_ok|exact C]. }
  rewrite E in *. destruct nx; auto; cbn in G.
  - destruct (W route eq_refl) as (h & Wk & _). eauto.
  - destruct (W route eq_refl) as (h & Wk & Tg). exists h. split; [exact Wk|]. destruct G as (q0 & F0 & C0 & _).
    intros q Fq Dq.
    destruct (enter_effect env vid _ s1 s' K1 N) as (v2 & Fv2 & [(rid0 & route0 & r & St & Fr & Rq)|[NG _]]).
    + rewrite Fw in Fv2. inv Fv2. rewrite E in St. inv St. rewrite F0 in Fr. inv Fr. rewrite (Tg _ C0).
      unfold find in Fq. rewrite Rq in Fq. destruct (Pos.eq_dec rid0 (r_id r)) as [->|Nk].
      * rewrite PM.gss in Fq. inv Fq. reflexivity.
      * rewrite PM.gso in Fq by exact Nk. unfold find in F0. assert (q = r) by congruence. subst q. reflexivity.
    + rewrite Fw in Fv2. inv Fv2. exfalso. eapply NG. rewrite E. eexists. reflexivity.
  - destruct (Src route eq_refl) as (a & b & v0 & Er & F0 & Ga & Dq). rewrite Fv in F0. inv F0. rewrite (Dq _ _ eq_refl).
    unfold v_geoid. rewrite Ep. fold (v_geoid v0). rewrite <- Ga. apply router_ok.
  - destruct (W route eq_refl) as (h & Wk & Tg). destruct G as (x & F0 & C0 & _).
    destruct Fr2 as [FS2 _]. destruct (FS2 _ _ F0) as (x' & F' & (_ & P & _)). exists h, x'. split; [exact Wk|]. split; [exact F'|].
    rewrite (Tg _ C0). unfold s_geoid. rewrite P. reflexivity.
  - destruct (W route eq_refl) as (h & Wk & Tg). destruct G as (b & F0 & C0 & _).
    destruct Fr2 as [_ FB2]. destruct (FB2 _ _ F0) as (b' & F' & (_ & P & _)). exists h, b'. split; [exact Wk|]. split; [exact F'|].
    rewrite (Tg _ C0). unfold b_geoid. rewrite P. reflexivity.
Qed.

(* ---------- _perform_update ---------- *)
(* one vehicle record rewritten, the other maps as they were *)
Lemma route_write s s' vid v w : Inv_route s -> vkeys s -> find vid (vehicles s) = Some v ->
  vehicles s' = PM.add vid w (vehicles s) -> stations s' = stations s -> bases s' = bases s -> requests s' = requests s -> dt s' = dt s ->
  on_route s w -> Inv_route s'.
Proof.
  intros I K Fv V S B R Dt Ow. pose proof I as (_ & SK & BK & _).
  apply (Inv_route_step s s' vid I K Dt (sframe_same _ _ S B)); try (rewrite ?S, ?B; assumption).
  - apply rframe_same. exact R.
  - intros k N. unfold find. rewrite V. apply PM.gso. exact N.
  - intros w0 Fw. unfold find in Fw. rewrite V, PM.gss in Fw. inv Fw.
    apply (on_route_frame s s' w0 (sframe_same _ _ S B)); [|exact Ow]. intros rid route _ q' Fq Dq. rewrite R in Fq. eauto.
Qed.
(* the vehicle advanced along its route: same activity, same target, remaining route from the new place *)
Lemma on_route_moved s v w r r' : v_state w = update_route (v_state v) r' -> v_id w = v_id v -> state_route (v_state v) = Some r ->
  (forall h, walk (v_geoid v) r = Some h -> walk (v_geoid w) r' = Some h) -> on_route s v -> on_route s w.
Proof.
  intros Es Ei Sr Wk. unfold on_route. rewrite Es, Ei. destruct (v_state v); cbn in Sr; try discriminate Sr; inv Sr; cbn.
  - intros (h & W). eauto.
  - intros (h & W & T). eauto.
  - intros W. eauto.
  - intros (h & x & W & F & T). exists h, x. auto.
  - intros (h & b & W & F & T). exists h, b. auto.
Qed.
Lemma on_route_still s v w : v_state w = v_state v -> v_id w = v_id v -> state_route (v_state v) = None -> on_route s w.
Proof. intros Es Ei Sr. unfold on_route. rewrite Es. destruct (v_state v); cbn in Sr; try discriminate Sr; exact I. Qed.

Lemma go_out_of_service_route s vid v s' : Inv_route s -> vkeys s -> find vid (vehicles s) = Some v ->
  go_out_of_service_on_empty env s vid = Ok s' -> Inv_route s'.
Proof.
  intros I K Fv H. pose proof I as (_ & SK & BK & _).
  unfold go_out_of_service_on_empty in H. rewrite Fv in H.
  assert (G : forall s1, sframe s s1 -> skeys (stations s1) -> bkeys (bases s1) -> vehicles s1 = vehicles s -> rframe None s s1 -> dt s1 = dt s ->
                apply_new_vehicle_state env s1 vid OutOfService = Ok s' -> Inv_route s').
  { intros s1 Fr SK1 BK1 Ev Rf Dt1 A. assert (K1 : vkeys s1) by (unfold vkeys; rewrite Ev; exact K).
    destruct (anvs_map env _ _ _ _ K1 A) as (x & Fx & V' & S' & B'). destruct (anvs_frame env _ _ _ _ A) as (_ & _ & R').
    pose proof (reach_dt NoAdd False _ _ (apply_new_vehicle_state_reach env NoAdd False _ _ _ _ A)) as Dt2.
    apply (Inv_route_step s s' vid I K); try (rewrite ?S', ?B'; auto); try congruence.
    - eapply sframe_trans; [exact Fr|apply sframe_same; assumption].
    - eapply rframe_trans; [apply rframe_weaken; exact Rf|apply rframe_same; exact R'].
    - intros k N. unfold find. rewrite V', Ev. apply PM.gso. exact N.
    - intros w Fw. unfold find in Fw. rewrite V', PM.gss in Fw. inv Fw. unfold on_route. cbn. exact Logic.I. }
  destruct (vs_exit env (vid, v_state v) (vid, OutOfService) s) as [s1| |] eqn:X.
  - destruct (exit_sframe env _ _ _ _ _ SK BK X) as (Fr1 & SK1 & BK1).
    apply (G s1); auto; [eapply vs_exit_same; eauto|eapply exit_rframe; eauto|].
    apply (reach_dt NoAdd False _ _ (vs_exit_reach env NoAdd False _ _ _ _ X)).
  - apply (G s); auto using sframe_same, rframe_same.
  - apply (G s); auto using sframe_same, rframe_same.
Qed.

Lemma move_route s vid s' : Inv_route s -> vkeys s -> move env s vid = Ok s' -> Inv_route s'.
Proof.
  intros I K H. pose proof I as (D & _ & _ & Iv). unfold move in H. repeat dmatch H.
  - (* nothing driven: the route is dropped; the vehicle already is where the route ends *)
    inv H. assert (Hid : v_id v = vid) by (apply K; assumption).
    lazymatch goal with X : modify_vehicle _ _ ?w = Ok _ |- _ =>
      apply modify_vehicle_spec in X; destruct X as (_ & V & S & B & R & _ & Dt & _); cbn in V; rewrite Hid in V;
      apply (route_write s s' vid v w I K); auto end.
    lazymatch goal with T : traverse _ ?r _ = Ok ?tr, X : rt_exp ?tr = [] |- _ =>
      apply (on_route_moved s v _ r []); auto; [|eapply Iv; eauto];
      intros h W; cbn; rewrite (traverse_nothing env _ _ _ _ _ (ltac:(lia) : dt s <> 0%Z) W T X); reflexivity end.
  - eapply go_out_of_service_route; eauto.
  - inv H. assert (Hid : v_id v = vid) by (apply K; assumption).
    pose proof (fun r => mech_consume_same m v r) as MC. cbv zeta in MC.
    lazymatch goal with X : modify_vehicle _ (emit _ ?e) ?w = Ok _ |- _ =>
      apply modify_vehicle_spec in X; destruct X as (_ & V & S & B & R & _ & Dt & _); cbn [emit] in V, S, B, R, Dt; cbn in V, S, B, R, Dt;
      rewrite (proj2 (proj2 (MC _))), Hid in V; apply (route_write s s' vid v w I K); auto end.
    lazymatch goal with T : traverse _ ?r _ = Ok ?tr, X : rt_exp ?tr = ?e0 :: ?rest |- _ =>
      apply (on_route_moved s v _ r (rt_rem tr)); auto; [cbn; rewrite (proj1 (MC _)); reflexivity|cbn; apply (proj2 (proj2 (MC _)))| |eapply Iv; eauto];
      intros h W; assert (Ne : rt_exp tr <> []) by (rewrite X; discriminate);
      pose proof (traverse_walk env _ _ _ _ _ W T Ne) as Wf; rewrite walk_app in Wf;
      destruct (walk (v_geoid v) (rt_exp tr)) as [m0|] eqn:We; [|discriminate];
      pose proof (walk_last (rt_exp tr) _ _ e0 Ne We) as Lm; rewrite X in Lm; unfold v_geoid; cbn [v_pos set veh_tick_distance p_geoid]; rewrite Lm; exact Wf end.
Qed.

Lemma perform_route s vid st s' : Inv_route s -> vkeys s -> vstate_of s vid = Some st -> perform_update env vid st s = Ok s' -> Inv_route s'.
Proof.
  intros I K Hst H.
  assert (Fv : exists v, find vid (vehicles s) = Some v /\ v_state v = st).
  { unfold vstate_of in Hst. destruct (find vid (vehicles s)) as [v|]; [|discriminate]. cbn in Hst. inv Hst. eauto. }
  destruct Fv as (v & Fv & Est). assert (Hid : v_id v = vid) by (apply K; exact Fv).
  assert (Still : forall e w, modify_vehicle env (match e with Some ev => emit s ev | None => s end) w = Ok s' -> v_id w = vid ->
                    state_route (v_state w) = None -> Inv_route s').
  { intros e w M Hw Sr. apply modify_vehicle_spec in M. destruct M as (_ & V & S & B & R & _ & Dt & _).
    assert (Same : forall X (f : Sim -> X), (forall ev, f (emit s ev) = f s) -> f (match e with Some ev => emit s ev | None => s end) = f s)
      by (intros X f Hf; destruct e; auto).
    rewrite (Same _ vehicles (fun _ => eq_refl)), Hw in V. rewrite (Same _ stations (fun _ => eq_refl)) in S. rewrite (Same _ bases (fun _ => eq_refl)) in B.
    rewrite (Same _ requests (fun _ => eq_refl)) in R. rewrite (Same _ dt (fun _ => eq_refl)) in Dt.
    apply (route_write s s' vid v w I K Fv V S B R Dt). unfold on_route. destruct (v_state w); cbn in Sr; try discriminate Sr; exact Logic.I. }
  destruct st; cbn [perform_update] in H; try (eapply move_route; eauto; fail); try (inv H; exact I).
  - rewrite Fv in H. repeat dmatch H. apply (Still None _ H); [cbn; rewrite (proj2 (proj2 (proj2 (mech_idle_same m v (dt s))))); exact Hid|reflexivity].
  - destruct (move env s vid) as [a| |] eqn:M; try discriminate.
    assert (Ia : Inv_route a) by (eapply move_route; eauto).
    repeat dmatch H; try (inv H; exact Ia).
    unfold drop_off_trip in H. repeat dmatch H. inv H. eapply Inv_route_ext; [| | | | |exact Ia]; try reflexivity. apply rframe_same. reflexivity.
  - (* ChargingStation *) destruct (charge_unless_full_cases env _ _ _ _ _ H) as [->|Hc]; [exact I|]. clear H. rename Hc into H. pose proof I as (D & SK & BK & Iv).
    destruct (charge_ledger env s vid sid cid s' H) as (v0 & stn & m & c & v1 & Fv0 & Fs & _ & _ & Ev1 & L).
    cbv zeta in L. destruct L as (V & S & _ & R & B). rewrite Fv in Fv0. inv Fv0.
    destruct (mech_add_energy_same m v0 c (dt s)) as (Es & Em & Ep & Ei). cbv zeta in Es, Em, Ep, Ei.
    assert (E1 : forall p, v_id (veh_send_payment (fst (mech_add_energy m v0 c (dt s))) p) = v_id v0) by (intro p; cbn; exact Ei). rewrite E1 in V.
    assert (Sim : forall p et k, ssim (tick_energy_dispensed (station_receive_payment stn p) et k) stn) by (intros p et k; destruct et; repeat split).
    destruct (sframe_add_station s s' sid stn _ SK Fs (Sim _ _ _) S B) as (Fr & SK').
    pose proof (reach_dt NoAdd False _ _ (charge_reach env NoAdd False _ _ _ _ _ H)) as Dt.
    apply (Inv_route_step s s' (v_id v0) I K Dt Fr SK'); [rewrite B; exact BK|apply rframe_same; exact R| |].
    + intros k N. unfold find. rewrite V. apply PM.gso. exact N.
    + intros w Fw. unfold find in Fw. rewrite V, PM.gss in Fw. inv Fw. unfold on_route. cbn. rewrite Es, Est. exact Logic.I.
  - rewrite Fv in H. repeat dmatch H. apply (Still None _ H); [rewrite (proj2 (proj2 (proj2 (mech_idle_same m v (dt s))))); exact Hid|].
    rewrite (proj1 (mech_idle_same m v (dt s))), Est. reflexivity.
  - (* ChargingBase *) repeat dmatch H. pose proof I as (D & SK & BK & Iv).
    destruct (charge_ledger env s vid _ cid s' H) as (v0 & stn & m & c & v1 & Fv0 & Fs & _ & _ & Ev1 & L).
    cbv zeta in L. destruct L as (V & S & _ & R & B). rewrite Fv in Fv0. inv Fv0.
    destruct (mech_add_energy_same m v0 c (dt s)) as (Es & Em & Ep & Ei). cbv zeta in Es, Em, Ep, Ei.
    assert (E1 : forall p, v_id (veh_send_payment (fst (mech_add_energy m v0 c (dt s))) p) = v_id v0) by (intro p; cbn; exact Ei). rewrite E1 in V.
    assert (Sim : forall p et k, ssim (tick_energy_dispensed (station_receive_payment stn p) et k) stn) by (intros p et k; destruct et; repeat split).
    destruct (sframe_add_station s s' _ stn _ SK Fs (Sim _ _ _) S B) as (Fr & SK').
    pose proof (reach_dt NoAdd False _ _ (charge_reach env NoAdd False _ _ _ _ _ H)) as Dt.
    apply (Inv_route_step s s' (v_id v0) I K Dt Fr SK'); [rewrite B; exact BK|apply rframe_same; exact R| |].
    + intros k N. unfold find. rewrite V. apply PM.gso. exact N.
    + intros w Fw. unfold find in Fw. rewrite V, PM.gss in Fw. inv Fw. unfold on_route. cbn. rewrite Es, Est. exact Logic.I.
Qed.

(* ---------- the other macro steps ---------- *)
Lemma cancel_route s rid : Inv_route s -> Inv_route (cancel_one env s rid).
Proof.
  intro I. unfold cancel_one. destruct (find rid (requests s)); [|exact I]. destruct (Z.ltb _ _); [exact I|].
  destruct (remove_request env s rid) as [a| |] eqn:R; try exact I. apply remove_request_spec in R. destruct R as (R & V & S & B & _ & Dt & _).
  eapply Inv_route_ext; [| | | | |exact I]; cbn; try assumption.
  intros k q' u Fq Dq _. cbn in Fq. rewrite R in Fq. unfold find in *. destruct (Pos.eq_dec k rid) as [->|N]; [rewrite PM.grs in Fq; discriminate|].
  rewrite PM.gro in Fq by exact N. eauto.
Qed.
Lemma admit_route s r : r_disp r = None -> Inv_route s -> Inv_route (admit_request env s r).
Proof.
  intros D I. unfold admit_request. repeat (match goal with |- context [if ?c then _ else _] => destruct c end; try exact I).
  destruct (add_request env s r) as [a| |] eqn:E; try exact I.
  assert (A : vehicles a = vehicles s /\ stations a = stations s /\ bases a = bases s /\ requests a = PM.add (r_id r) r (requests s) /\ dt a = dt s).
  { unfold add_request in E. destruct (find (r_id r) (requests s)).
    - apply modify_request_spec in E. intuition.
    - unfold add_request_new in E. destruct (negb _); [discriminate|]. inv E. cbn. auto. }
  destruct A as (V & S & B & R & Dt). eapply Inv_route_ext; [| | | | |exact I]; cbn; try assumption.
  intros k q' u Fq Dq _. cbn in Fq. rewrite R in Fq. unfold find in *. destruct (Pos.eq_dec k (r_id r)) as [->|N].
  - rewrite PM.gss in Fq. inv Fq. congruence.
  - rewrite PM.gso in Fq by exact N. eauto.
Qed.
Lemma price_route s sid prices : Inv_route s -> Inv_route (update_station_prices env s sid prices).
Proof.
  intro I. unfold update_station_prices. destruct (find sid (stations s)) as [st|] eqn:Fs; [|exact I].
  destruct (modify_station env s _) as [a| |] eqn:E; try exact I. pose proof I as (D & SK & BK & I').
  pose proof (modify_station_spec env _ _ _ E) as (_ & _ & _ & _ & _ & _ & Dt & _).
  destruct (station_write env s sid st _ a SK Fs (station_update_prices_sim prices st) E) as (Fr & SK' & B & V & R).
  split; [rewrite Dt; exact D|]. split; [exact SK'|]. split; [rewrite B; exact BK|]. intros k u Fu. rewrite V in Fu.
  apply (on_route_frame s a u Fr); [|eapply I'; eauto]. intros rid route _ q' Fq Dq. rewrite R in Fq. eauto.
Qed.
Lemma driver_route rt s v s' : vkeys s -> Inv_route s -> driver_update env rt s v = Ok s' -> Inv_route s'.
Proof.
  intros K I H. unfold driver_update, apply_new_driver_state in H.
  assert (W : forall e cur dr s1, find (v_id v) (vehicles s) = Some cur -> modify_vehicle env (emit s e) (cur <| v_driver := dr |>) = Ok s1 -> Inv_route s1).
  { intros e cur dr s1 F M. assert (Hid : v_id cur = v_id v) by (apply K; exact F).
    apply modify_vehicle_spec in M. destruct M as (_ & V & S & B & R & _ & Dt & _). cbn in V, S, B, R, Dt. rewrite Hid in V.
    apply (route_write s s1 (v_id v) cur _ I K F V S B R Dt). destruct I as (_ & _ & _ & Iv). exact (Iv _ _ F). }
  destruct (v_driver v).
  - inv H. exact I.
  - destruct (sched_active env sched (sim_time s)) as [[|]|]; try (inv H; exact I).
    destruct (find (v_id v) (vehicles s)) as [cur|] eqn:F; [|discriminate]. cbn in H. rewrite F in H. eapply W; eauto.
  - destruct (find (v_id v) (vehicles s)) as [cur|] eqn:F; [|discriminate].
    destruct (sched_active env sched (sim_time s)) as [[|]|]; try (inv H; exact I). cbn in H. rewrite F in H. eapply W; eauto.
Qed.

Lemma mstep_route s s' : vkeys s -> Inv_route s -> MStep env s s' -> Inv_route s'.
Proof.
  intros K I M. destruct M.
  - eapply transition_route; eauto.
  - eapply perform_route; eauto.
  - apply cancel_route; exact I.
  - apply admit_route; assumption.
  - apply price_route; exact I.
  - eapply driver_route; eauto.
  - destruct H as (V & S & B & R & _ & _ & _ & _ & _ & _ & _ & _ & Dt & _). eapply Inv_route_ext; eauto. apply rframe_same. exact R.
  - destruct I as (D & SK & BK & Iv). split; [exact D|]. split; [exact SK|]. split; [exact BK|]. exact Iv.
  - destruct (transition_vonly env _ _ _ _ _ H2 K) as [K1 _]. eapply (perform_route s1); [eapply transition_route; eauto using default_terminal_sourced|exact K1|unfold vstate_of; rewrite H3; reflexivity|eauto].
Qed.

(* C07, second sentence, over every finite history, any controller *)
Theorem route_invariant ops : forall s0, vkeys s0 -> Inv_route s0 -> Forall op_ok ops ->
  vkeys (fold_left (step_op env) ops s0) /\ Inv_route (fold_left (step_op env) ops s0).
Proof. apply (history_invariant env Inv_route). intros s s' K I M. eapply mstep_route; eauto. Qed.
Lemma Inv_route_initial s : (0 < dt s)%Z -> skeys (stations s) -> bkeys (bases s) ->
  (forall k v, find k (vehicles s) = Some v -> state_route (v_state v) = None) -> Inv_route s.
Proof.
  intros D SK BK HV. split; [exact D|]. split; [exact SK|]. split; [exact BK|]. intros k v F. specialize (HV k v F).
  unfold on_route. destruct (v_state v); cbn in HV; try discriminate HV; exact Logic.I.
Qed.
End R.

(* the haversine road network satisfies the router hypothesis *)
From Hive.Model Require Import Harness.
Lemma hav_router_ok parents gctab midtab mechs cancel fleets scheds a b :
  walk (p_geoid a) (e_route (mk_hav_env parents gctab midtab mechs cancel fleets scheds) a b) = Some (p_geoid b).
Proof.
  cbn. unfold hav_route. destruct (pos_eqb a b) eqn:E.
  - cbn. unfold pos_eqb in E. apply andb_true_iff in E. destruct E as [_ E]. apply Pos.eqb_eq in E. congruence.
  - cbn. rewrite Pos.eqb_refl. reflexivity.
Qed.
