(* Proofs/Move.v — C06 / C19 / C04: what vehicle_state_ops.move does to the state, as one fact. *)
From Hive.Base Require Import Prelude.
From Hive.Model Require Import Types KernelBase SimOps States Step.
From Hive.Gen Require Import Kernels.
From Hive.Proofs Require Import SimFacts.
Local Open Scope Q_scope.

Section S.
Variable env : Env.
Ltac inv H := inversion H; subst; clear H.
Ltac dmatch H :=
  match type of H with
  | context [match ?x with _ => _ end] =>
      lazymatch x with
      | context [match _ with _ => _ end] => fail
      | _ => let E := fresh "E" in destruct x eqn:E; try discriminate
      end
  end.

Inductive move_outcome (s : Sim) (vid : id) (s' : Sim) : Prop :=
| MO_nothing_to_drive v route tr :     (* the route is empty / a loop / no time was used: only the route is cleared *)
    find vid (vehicles s) = Some v -> state_route (v_state v) = Some route -> traverse env route (dt s) = Ok tr -> rt_exp tr = [] ->
    vehicles s' = PM.add (v_id v) (v <| v_state := update_route (v_state v) [] |>) (vehicles s) -> log s' = log s ->
    move_outcome s vid s'
| MO_empty v m route tr :              (* not enough energy for this movement: the vehicle stops where it is *)
    find vid (vehicles s) = Some v -> e_mech env (v_mech v) = Some m -> state_route (v_state v) = Some route ->
    traverse env route (dt s) = Ok tr -> mech_is_empty m (mech_consume m v (rt_exp tr)) = true ->
    go_out_of_service_on_empty env s vid = Ok s' ->
    move_outcome s vid s'
| MO_moved v m route tr e0 :           (* the normal case *)
    find vid (vehicles s) = Some v -> e_mech env (v_mech v) = Some m -> state_route (v_state v) = Some route ->
    traverse env route (dt s) = Ok tr -> rt_exp tr = e0 :: tl (rt_exp tr) ->
    mech_is_empty m (mech_consume m v (rt_exp tr)) = false ->
    let lastl := last (rt_exp tr) e0 in
    let v2 := (veh_tick_distance ((mech_consume m v (rt_exp tr)) <| v_pos := mkPos (l_id lastl) (l_end lastl) |>) (rt_dist tr))
                <| v_state := update_route (v_state (veh_tick_distance ((mech_consume m v (rt_exp tr)) <| v_pos := mkPos (l_id lastl) (l_end lastl) |>) (rt_dist tr))) (rt_rem tr) |> in
    vehicles s' = PM.add (v_id v2) v2 (vehicles s) ->
    log s' = EvMove vid (v_odo v2 - v_odo v) (sim_time s) :: log s ->
    move_outcome s vid s'.

Lemma move_spec s vid s' : move env s vid = Ok s' -> move_outcome s vid s'.
Proof.
  unfold move. intro H. repeat dmatch H.
  - inv H. match goal with Hm : modify_vehicle _ _ _ = Ok _ |- _ => apply modify_vehicle_spec in Hm; cbn in Hm; destruct Hm as (_ & V & S & B & R & T & _ & _ & L) end.
    eapply MO_nothing_to_drive; eauto.
  - eapply MO_empty; eauto. match goal with Hx : rt_exp _ = _ :: _ |- _ => rewrite Hx end. assumption.
  - inv H. match goal with Hm : modify_vehicle _ _ _ = Ok _ |- _ => unfold emit in Hm; apply modify_vehicle_spec in Hm; cbn in Hm; destruct Hm as (_ & V & S & B & R & T & _ & _ & L) end.
    eapply MO_moved; eauto; match goal with Hx : rt_exp _ = _ :: _ |- _ => rewrite ?Hx end; try reflexivity; try assumption.
Qed.

(* the odometer grows by exactly the traversal distance, which is what the move event reports *)
Lemma moved_odometer (m : Mech) (v : Vehicle) exp p d st :
  let v2 := (veh_tick_distance ((mech_consume m v exp) <| v_pos := p |>) d) <| v_state := st |> in
  v_odo v2 - v_odo v == d.
Proof.
  unfold mech_consume. destruct (m_kind m); cbn.
  - unfold bev_consume_energy, veh_tick_distance, veh_modify_energy, veh_tick_energy_expended. cbn. lra.
  - unfold ice_consume_energy, veh_tick_distance, veh_modify_energy, veh_tick_energy_expended. cbn. lra.
Qed.
End S.
