(* Props/C04.v — property theorems only.  C04: vehicle energy stays physical and fully accounted for.
   Statements are about the kernels regenerated from /repo on every run (Gen/Kernels.v); the last theorem lifts the accounting
   identity to every history of the step model through the vehicle frame theorem (Proofs/VehFrame.v). *)
From Hive.Base Require Import Prelude.
From Hive.Model Require Import Types KernelBase.
From Hive.Gen Require Import Kernels.
From Hive.Model Require Import SimOps States Step.
From Hive.Proofs Require Import Energy VehFrame.
Local Open Scope Q_scope.

(* consume_energy / idle, both powertrains: level stays in [0, level before]; what left the tank is exactly
   what was booked as expended; nothing else of the vehicle changes *)
Theorem C04_consume_bounds_bev : forall m v r, train_ok m -> dists_nonneg r -> 0 <= v_energy v ->
  0 <= v_energy (bev_consume_energy m v r) <= v_energy v.
Proof. exact bev_consume_bounds. Qed.
Theorem C04_consume_bounds_ice : forall m v r, train_ok m -> dists_nonneg r -> 0 <= v_energy v ->
  0 <= v_energy (ice_consume_energy m v r) <= v_energy v.
Proof. exact ice_consume_bounds. Qed.
Theorem C04_consume_books_bev : forall m v r,
  v_energy v - v_energy (bev_consume_energy m v r) == v_expended (bev_consume_energy m v r) - v_expended v.
Proof. exact bev_consume_books. Qed.
Theorem C04_consume_books_ice : forall m v r,
  v_energy v - v_energy (ice_consume_energy m v r) == v_expended (ice_consume_energy m v r) - v_expended v.
Proof. exact ice_consume_books. Qed.
Theorem C04_consume_frame_bev : forall m v r, energy_unchanged_except v (bev_consume_energy m v r).
Proof. exact bev_consume_frame. Qed.
Theorem C04_consume_frame_ice : forall m v r, energy_unchanged_except v (ice_consume_energy m v r).
Proof. exact ice_consume_frame. Qed.
Theorem C04_idle_bounds_bev : forall m v t, 0 <= m_idle m -> (0 <= t)%Z -> 0 <= v_energy v ->
  0 <= v_energy (bev_idle m v t) <= v_energy v.
Proof. exact bev_idle_bounds. Qed.
Theorem C04_idle_bounds_ice : forall m v t, 0 <= m_idle m -> (0 <= t)%Z -> 0 <= v_energy v ->
  0 <= v_energy (ice_idle m v t) <= v_energy v.
Proof. exact ice_idle_bounds. Qed.
Theorem C04_idle_books_bev : forall m v t,
  v_energy v - v_energy (bev_idle m v t) == v_expended (bev_idle m v t) - v_expended v.
Proof. exact bev_idle_books. Qed.
Theorem C04_idle_books_ice : forall m v t,
  v_energy v - v_energy (ice_idle m v t) == v_expended (ice_idle m v t) - v_expended v.
Proof. exact ice_idle_books. Qed.
Theorem C04_idle_frame_bev : forall m v t, energy_unchanged_except v (bev_idle m v t).
Proof. exact bev_idle_frame. Qed.
Theorem C04_idle_frame_ice : forall m v t, energy_unchanged_except v (ice_idle m v t).
Proof. exact ice_idle_frame. Qed.

(* strictly positive expenditure for every powertrain type *)
Theorem C04_consume_positive_bev : forall m v r, train_ok m -> dists_nonneg r -> 0 < route_dist r -> 0 < v_energy v ->
  v_energy (bev_consume_energy m v r) < v_energy v.
Proof. exact bev_consume_positive. Qed.
Theorem C04_consume_positive_ice : forall m v r, train_ok m -> dists_nonneg r -> 0 < route_dist r -> 0 < v_energy v ->
  v_energy (ice_consume_energy m v r) < v_energy v.
Proof. exact ice_consume_positive. Qed.
Theorem C04_idle_positive_bev : forall m v t, 0 < m_idle m -> (0 < t)%Z -> 0 < v_energy v ->
  v_energy (bev_idle m v t) < v_energy v.
Proof. exact bev_idle_positive. Qed.
Theorem C04_idle_positive_ice : forall m v t, 0 < m_idle m -> (0 < t)%Z -> 0 < v_energy v ->
  v_energy (ice_idle m v t) < v_energy v.
Proof. exact ice_idle_positive. Qed.

(* add_energy: never lowers the level, never exceeds capacity, books exactly what was added, and adds no more
   than the plug delivers in t seconds — for every t >= 0 and every curve step size (multiple of t or not) *)
Theorem C04_add_energy_bev : forall m v c t, (0 <= t)%Z -> 0 <= c_rate c -> v_energy v <= m_cap m -> curve_ok m ->
  add_spec m v c t (fst (bev_add_energy m v c t)).
Proof. exact bev_add_energy_spec. Qed.
Theorem C04_add_energy_ice : forall m v c t, (0 <= t)%Z -> 0 <= c_rate c -> v_energy v <= m_cap m ->
  add_spec m v c t (fst (ice_add_energy m v c t)).
Proof. exact ice_add_energy_spec. Qed.

(* over EVERY finite history of operations of the step alphabet, with instructions from ANY controller: no vehicle is dropped or
   re-keyed, its powertrain and membership never change, and its stored energy always equals initial + gained - expended
   (balance v := energy - gained + expended is invariant), for both powertrains, unconditionally *)
Theorem C04_energy_accounted_over_histories : forall env ops s0, vkeys s0 -> forall vid v0, find vid (vehicles s0) = Some v0 ->
  exists v, find vid (vehicles (fold_left (step_op env) ops s0)) = Some v /\
            v_id v = v_id v0 /\ v_mem v = v_mem v0 /\ v_mech v = v_mech v0 /\ balance v == balance v0.
Proof. exact history_vehicle_frame. Qed.
Print Assumptions C04_energy_accounted_over_histories.
Print Assumptions C04_consume_bounds_bev. Print Assumptions C04_consume_bounds_ice.
Print Assumptions C04_consume_books_bev. Print Assumptions C04_consume_books_ice.
Print Assumptions C04_consume_frame_bev. Print Assumptions C04_consume_frame_ice.
Print Assumptions C04_idle_bounds_bev. Print Assumptions C04_idle_bounds_ice.
Print Assumptions C04_idle_books_bev. Print Assumptions C04_idle_books_ice.
Print Assumptions C04_idle_frame_bev. Print Assumptions C04_idle_frame_ice.
Print Assumptions C04_consume_positive_bev. Print Assumptions C04_consume_positive_ice.
Print Assumptions C04_idle_positive_bev. Print Assumptions C04_idle_positive_ice.
Print Assumptions C04_add_energy_bev. Print Assumptions C04_add_energy_ice.
