(* Proofs/Traverse.v — C06: the generated link / route traversal kernels (linktraversal.py, routetraversal.py, units.py,
   h3_ops.point_along_link) and the hand-modelled fold of routetraversal.traverse. *)
From Hive.Base Require Import Prelude.
From Hive.Model Require Import Types KernelBase SimOps States.
From Hive.Gen Require Import Kernels.
Local Open Scope Z_scope.

Section T.
Variable gc : geoid -> geoid -> Q.
Variable mid : LinkT -> Z -> geoid.

(* one link, t seconds available *)
Lemma traverse_up_to_degenerate link t : l_start link = l_end link ->
  traverse_up_to gc mid link t = Ok (mkLTR None None t).
Proof. intro E. unfold traverse_up_to. cbn. rewrite E, Pos.eqb_refl. reflexivity. Qed.

(* enough time for the whole link: it is traversed completely, nothing remains, its (whole-second) travel time is consumed *)
Lemma traverse_up_to_full link t : l_start link <> l_end link -> link_travel_time_seconds link <= t ->
  traverse_up_to gc mid link t = Ok (mkLTR (Some link) None (t - link_travel_time_seconds link)).
Proof.
  intros N H. unfold traverse_up_to. cbn. apply Pos.eqb_neq in N. rewrite N. apply Z.leb_le in H. rewrite H. reflexivity.
Qed.

(* not enough time: the link is split at one point p = point_along_link; the driven piece runs start -> p, the remaining piece
   p -> end, both keep the link's id and speed, and the step's time is used up *)
Lemma traverse_up_to_partial link t : l_start link <> l_end link -> t < link_travel_time_seconds link ->
  let p := point_along_link gc mid link t in
  traverse_up_to gc mid link t =
    Ok (mkLTR (Some (mkLinkT (l_id link) (l_start link) p (gc (l_start link) p) (l_speed link)))
              (Some (mkLinkT (l_id link) p (l_end link) (gc p (l_end link)) (l_speed link))) 0).
Proof.
  intros N H. unfold traverse_up_to. cbn. apply Pos.eqb_neq in N. rewrite N. apply Z.leb_gt in H. rewrite H. reflexivity.
Qed.

(* never an error, never more time left than before, never negative when t >= 0 and the travel time is >= 0 *)
Lemma traverse_up_to_time link t r : 0 <= t -> 0 <= link_travel_time_seconds link ->
  traverse_up_to gc mid link t = Ok r -> 0 <= ltr_time r <= t.
Proof.
  intros Ht Htt. destruct (Pos.eq_dec (l_start link) (l_end link)) as [E|N].
  - rewrite traverse_up_to_degenerate by exact E. intro H. inversion H; subst. cbn. lia.
  - destruct (Z.le_gt_cases (link_travel_time_seconds link) t) as [L|L].
    + rewrite traverse_up_to_full by assumption. intro H. inversion H; subst. cbn. lia.
    + rewrite traverse_up_to_partial by (assumption || lia). intro H. inversion H; subst. cbn. lia.
Qed.
Lemma traverse_up_to_total link t : exists r, traverse_up_to gc mid link t = Ok r.
Proof.
  destruct (Pos.eq_dec (l_start link) (l_end link)) as [E|N].
  - eexists. apply traverse_up_to_degenerate. exact E.
  - destruct (Z.le_gt_cases (link_travel_time_seconds link) t) as [L|L].
    + eexists. apply traverse_up_to_full; assumption.
    + eexists. apply traverse_up_to_partial; [assumption|lia].
Qed.

(* point_along_link stays on the link: it is one of the two ends or the oracle's interior point *)
Lemma point_along_link_cases link t :
  point_along_link gc mid link t = l_start link \/ point_along_link gc mid link t = l_end link \/
  point_along_link gc mid link t = mid link t.
Proof. unfold point_along_link. cbn. destruct (Qltb _ _); [auto|]. destruct (Qltb _ _); auto. Qed.

(* hours_to_seconds truncates towards zero: for a non-negative duration it never rounds up ("whole-second rounding") *)
Lemma hours_to_seconds_floor h : (0 <= h)%Q -> (inject_Z (hours_to_seconds h) <= h * 3600)%Q /\ 0 <= hours_to_seconds h.
Proof.
  intro H. unfold hours_to_seconds. cbv zeta. unfold Qtrunc.
  assert (H' : (0 <= h * (3600 # 1))%Q) by (apply Qmult_le_0_compat; [exact H|discriminate]).
  pose proof H' as H''. apply Qle_bool_iff in H''. rewrite H''. split.
  - apply Qfloor_le.
  - change 0 with (Qfloor 0). apply Qfloor_resp_le. exact H'.
Qed.
End T.

(* ---------- RouteTraversal accumulators ---------- *)
Lemma rt_add_traversal_spec a t :
  rt_time (rt_add_traversal a t) = ltr_time t /\
  rt_exp (rt_add_traversal a t) = rt_exp a ++ (match ltr_traversed t with Some x => [x] | None => [] end) /\
  rt_rem (rt_add_traversal a t) = rt_rem a ++ (match ltr_remaining t with Some x => [x] | None => [] end) /\
  (rt_dist (rt_add_traversal a t) == rt_dist a + (match ltr_traversed t with Some x => l_dist x | None => 0 end))%Q.
Proof.
  unfold rt_add_traversal. cbn. destruct (ltr_traversed t), (ltr_remaining t); cbn; rewrite ?app_nil_r; repeat split; try reflexivity; lra.
Qed.
Lemma rt_add_link_not_traversed_spec a l :
  rt_time (rt_add_link_not_traversed a l) = rt_time a /\ rt_exp (rt_add_link_not_traversed a l) = rt_exp a /\
  rt_rem (rt_add_link_not_traversed a l) = rt_rem a ++ [l] /\ rt_dist (rt_add_link_not_traversed a l) = rt_dist a.
Proof. unfold rt_add_link_not_traversed. cbn. auto. Qed.
Lemma rt_no_time_left_spec a : rt_no_time_left a = true <-> rt_time a = 0.
Proof.
  unfold rt_no_time_left. rewrite Qeqb_eq. unfold Qeq. cbn. lia.
Qed.

(* ---------- the fold of routetraversal.traverse ---------- *)
Section Fold.
Variable env : Env.
Definition dist_sum (r : Route) : Q := fold_right (fun l acc => (l_dist l + acc)%Q) 0%Q r.
Lemma dist_sum_nil : dist_sum [] = 0%Q. Proof. reflexivity. Qed.
Lemma dist_sum_cons x a : dist_sum (x :: a) = (l_dist x + dist_sum a)%Q. Proof. reflexivity. Qed.
Lemma dist_sum_app a b : (dist_sum (a ++ b) == dist_sum a + dist_sum b)%Q.
Proof.
  induction a as [|x a IH]; cbn [app].
  - rewrite dist_sum_nil. lra.
  - rewrite !dist_sum_cons, IH. lra.
Qed.

(* the driven part followed by the remaining part lists the route's link ids in route order; a link contributes its id
   0 times (degenerate link: start = end), once (driven completely, or not driven at all) or twice (the one split link) *)
Inductive Expands : Route -> list linkid -> Prop :=
| Ex_nil : Expands [] []
| Ex_cons l route ids k : Expands route ids -> (k <= 2)%nat -> Expands (route ++ [l]) (ids ++ repeat (l_id l) k).

Definition ids_of (a : RT) : list linkid := map l_id (rt_exp a) ++ map l_id (rt_rem a).
Definition tt_ok : Prop := forall l g, e_link env (l_id l) = Some g -> 0 <= link_travel_time_seconds (l <| l_speed := l_speed g |>).

(* invariant of the fold *)
Definition TInv (a : RT) : Prop :=
  0 <= rt_time a /\ (rt_dist a == dist_sum (rt_exp a))%Q /\ (rt_rem a <> [] -> rt_time a = 0).

Lemma traverse_step_inv (a : RT) link a' : tt_ok -> TInv a ->
  traverse_step env (Ok a) link = Ok a' ->
  TInv a' /\ rt_time a' <= rt_time a /\ exists k, (k <= 2)%nat /\ ids_of a' = ids_of a ++ repeat (l_id link) k.
Proof.
  intros Htt (Ht & Hd & Hr) H. cbn [traverse_step] in H. destruct (rt_no_time_left a) eqn:NT.
  - inversion H; subst. destruct (rt_add_link_not_traversed_spec a link) as (A & B & C & D).
    apply rt_no_time_left_spec in NT. unfold TInv. rewrite A, B, C, D. split; [|split; [lia|]].
    + split; [lia|]. split; [exact Hd|]. intros _. exact NT.
    + exists 1%nat. split; [lia|]. unfold ids_of. rewrite B, C, map_app, app_assoc. reflexivity.
  - assert (NT' : rt_time a <> 0) by (intro Z; apply rt_no_time_left_spec in Z; congruence).
    assert (Hrem : rt_rem a = []) by (destruct (rt_rem a) eqn:R; [reflexivity|exfalso; apply NT', Hr; discriminate]).
    destruct (e_link env (l_id link)) as [g|] eqn:G; [|discriminate].
    destruct (traverse_up_to (e_gc env) (e_mid env) (link <| l_speed := l_speed g |>) (rt_time a)) as [r| |] eqn:U; try discriminate.
    inversion H; subst. destruct (rt_add_traversal_spec a r) as (A & B & C & D).
    pose proof (traverse_up_to_time _ _ _ _ _ Ht (Htt _ _ G) U) as Tm.
    set (l' := link <| l_speed := l_speed g |>) in *.
    destruct (Pos.eq_dec (l_start l') (l_end l')) as [E|N].
    + rewrite traverse_up_to_degenerate in U by exact E. inversion U; subst r. cbn [ltr_traversed ltr_remaining ltr_time] in A, B, C, D, Tm.
      unfold TInv. rewrite A, B, C. rewrite !app_nil_r. split; [|split; [lia|]].
      * split; [lia|]. split; [rewrite D, Hd; lra|]. intro X. exfalso. apply X. exact Hrem.
      * exists 0%nat. split; [lia|]. unfold ids_of. rewrite B, C. cbn [repeat]. rewrite !app_nil_r. reflexivity.
    + destruct (Z.le_gt_cases (link_travel_time_seconds l') (rt_time a)) as [L|L].
      * rewrite traverse_up_to_full in U by assumption. inversion U; subst r. cbn [ltr_traversed ltr_remaining ltr_time] in A, B, C, D, Tm.
        unfold TInv. rewrite A, B, C. rewrite !app_nil_r. split; [|split; [lia|]].
        -- split; [lia|]. split; [rewrite D, dist_sum_app, Hd; cbn; lra|]. intro X. exfalso. apply X. exact Hrem.
        -- exists 1%nat. split; [lia|]. unfold ids_of. rewrite B, C, Hrem, map_app. cbn. rewrite !app_nil_r. reflexivity.
      * rewrite traverse_up_to_partial in U by (assumption || lia). inversion U; subst r. cbn [ltr_traversed ltr_remaining ltr_time] in A, B, C, D, Tm.
        unfold TInv. rewrite A, B, C. split; [|split; [lia|]].
        -- split; [lia|]. split; [rewrite D, dist_sum_app, Hd; cbn; lra|]. intros _. reflexivity.
        -- exists 2%nat. split; [lia|]. unfold ids_of. rewrite B, C, Hrem, !map_app. cbn. rewrite app_nil_r, <- app_assoc. reflexivity.
Qed.

Lemma traverse_fold_inv : tt_ok -> forall route a a' pre,
  TInv a -> Expands pre (ids_of a) ->
  fold_left (traverse_step env) route (Ok a) = Ok a' ->
  TInv a' /\ rt_time a' <= rt_time a /\ Expands (pre ++ route) (ids_of a').
Proof.
  intros Htt. induction route as [|l route IH]; intros a a' pre I Ex H; cbn [fold_left] in H.
  - inversion H; subst. rewrite app_nil_r. split; [exact I|]. split; [lia|exact Ex].
  - destruct (traverse_step env (Ok a) l) as [a1| |] eqn:S.
    + destruct (traverse_step_inv a l a1 Htt I S) as (I1 & T1 & k & Hk & Hids).
      destruct (IH a1 a' (pre ++ [l]) I1) as (I2 & T2 & Ex2); [rewrite Hids; constructor; assumption|exact H|].
      split; [exact I2|]. split; [lia|]. rewrite <- app_assoc in Ex2. exact Ex2.
    + exfalso. clear -H. induction route as [|x r IHr]; cbn in H; [discriminate|auto].
    + exfalso. clear -H. induction route as [|x r IHr]; cbn in H; [discriminate|auto].
Qed.

(* routetraversal.traverse over a whole route with a step of `dur` seconds *)
Theorem traverse_spec route dur tr : tt_ok -> 0 <= dur -> traverse env route dur = Ok tr ->
  0 <= rt_time tr <= dur /\                                   (* never more than the step's time is used *)
  (rt_dist tr == dist_sum (rt_exp tr))%Q /\                   (* the odometer increment is the length of the driven part *)
  (rt_rem tr <> [] -> rt_time tr = 0) /\                      (* something remains only when the time is used up *)
  (tr = rt_empty \/ Expands route (ids_of tr)).               (* driven ++ remaining = the route's links, in order *)
Proof.
  intros Htt Hd. unfold traverse. destruct route as [|h t]; [intro H; inversion H; subst; cbn; repeat split; try lia; try lra; auto; discriminate|].
  destruct (Pos.eqb (l_start h) (l_end (last (h :: t) h))).
  - intro H. inversion H; subst. cbn. repeat split; try lia; try lra; auto; discriminate.
  - intro H. destruct (traverse_fold_inv Htt (h :: t) (mkRT dur 0 [] []) tr []) as ((A & B & C) & T & Ex).
    + unfold TInv. cbn. repeat split; try lia; try lra. intro X. exfalso. apply X. reflexivity.
    + cbn. constructor.
    + exact H.
    + cbn in T. repeat split; auto; lia.
Qed.
End Fold.
