(* Proofs/VehFrame.v — the vehicle frame theorem: over any operation of the step alphabet, every vehicle record evolves only
   through the seven kinds of write below (VRel), whatever the controller does; vehicles are never dropped or re-keyed.
   Per-vehicle invariants over whole histories (energy accounting, constant membership / powertrain, ...) follow by induction
   on VRel*. *)
From Hive.Base Require Import Prelude.
From Hive.Model Require Import Types KernelBase SimOps States Step.
From Hive.Gen Require Import Kernels.
From Hive.Proofs Require Import SimFacts Reach Clock Trip.

Section VF.
Variable env : Env.
Variable d : Z.      (* the step length *)
Variable allow : bool.   (* whether driver-state writes are among the writes considered (they are made by driver updates only) *)

Inductive VRel : Vehicle -> Vehicle -> Prop :=
| VR_state v st : VRel v (v <| v_state := st |>)
| VR_driver v dr : allow = true -> VRel v (v <| v_driver := dr |>)
| VR_pay v q : VRel v (veh_receive_payment v q)
| VR_charge v m c price : VRel v (veh_send_payment (fst (mech_add_energy m v c d)) price)
| VR_idle v m st : VRel v ((mech_idle m v d) <| v_state := st |>)
| VR_idle0 v m : VRel v (mech_idle m v d)
| VR_move v m exp p dist st : VRel v ((veh_tick_distance ((mech_consume m v exp) <| v_pos := p |>) dist) <| v_state := st |>).

Inductive VStar : Vehicle -> Vehicle -> Prop :=
| VS_refl v : VStar v v
| VS_step v1 v2 v3 : VRel v1 v2 -> VStar v2 v3 -> VStar v1 v3.
Lemma VStar_trans a b c : VStar a b -> VStar b c -> VStar a c.
Proof. induction 1; auto. intro. econstructor; eauto. Qed.
Lemma VStar_one a b : VRel a b -> VStar a b.
Proof. intro. econstructor; [eassumption|constructor]. Qed.

Definition vkeys (s : Sim) : Prop := forall k v, find k (vehicles s) = Some v -> v_id v = k.
(* s' is reachable from s with every vehicle evolving by VStar *)
Definition vstep (s s' : Sim) : Prop :=
  dt s = d -> vkeys s ->
  dt s' = d /\ vkeys s' /\ forall vid v, find vid (vehicles s) = Some v -> exists v', find vid (vehicles s') = Some v' /\ VStar v v'.

Lemma vstep_refl s : vstep s s.
Proof. intros D K. split; [exact D|]. split; [exact K|]. intros vid v F. exists v. split; [exact F|constructor]. Qed.
Lemma vstep_trans s1 s2 s3 : vstep s1 s2 -> vstep s2 s3 -> vstep s1 s3.
Proof.
  intros A B D K. destruct (A D K) as (D2 & K2 & V2). destruct (B D2 K2) as (D3 & K3 & V3).
  split; [exact D3|]. split; [exact K3|]. intros vid v F. destruct (V2 vid v F) as (v2 & F2 & S2).
  destruct (V3 vid v2 F2) as (v3 & F3 & S3). exists v3. split; [exact F3|]. eapply VStar_trans; eauto.
Qed.
(* anything that leaves the vehicle map and dt alone *)
Lemma vstep_same s s' : vehicles s' = vehicles s -> dt s' = dt s -> vstep s s'.
Proof.
  intros V Dt D K. split; [congruence|]. split; [unfold vkeys; rewrite V; exact K|].
  intros vid v F. exists v. rewrite V. split; [exact F|constructor].
Qed.
(* a vehicle write *)
Lemma vstep_modv s w s' old : modify_vehicle env s w = Ok s' -> find (v_id w) (vehicles s) = Some old -> VRel old w -> vstep s s'.
Proof.
  intros M F R D K. apply modify_vehicle_spec in M. destruct M as (_ & V & _ & _ & _ & _ & Dt & _).
  split; [congruence|]. split.
  - intros k v Fk. unfold find in *. rewrite V in Fk. destruct (Pos.eq_dec k (v_id w)) as [->|N].
    + rewrite PM.gss in Fk. inversion Fk; subst. reflexivity.
    + rewrite PM.gso in Fk by exact N. apply K. exact Fk.
  - intros vid v Fv. unfold find in *. rewrite V. destruct (Pos.eq_dec vid (v_id w)) as [->|N].
    + rewrite PM.gss. exists w. split; [reflexivity|]. rewrite F in Fv. inversion Fv; subst. apply VStar_one. exact R.
    + rewrite PM.gso by exact N. exists v. split; [exact Fv|constructor].
Qed.

Ltac inv H := inversion H; subst; clear H.
Ltac dmatch H :=
  match type of H with
  | context [match ?x with _ => _ end] =>
      lazymatch x with
      | context [match _ with _ => _ end] => fail
      | _ => let E := fresh "E" in destruct x eqn:E; try discriminate
      end
  end.
Ltac same_tac :=
  repeat match goal with
         | H : modify_station _ _ _ = Ok _ |- _ => apply modify_station_spec in H; destruct H as (_ & _ & ? & _ & _ & _ & ? & _)
         | H : modify_base _ _ _ = Ok _ |- _ => apply modify_base_spec in H; destruct H as (_ & _ & ? & _ & _ & _ & ? & _)
         | H : modify_request _ _ _ = Ok _ |- _ => apply modify_request_spec in H; destruct H as (_ & _ & ? & _ & _ & _ & ? & _)
         | H : remove_request _ _ _ = Ok _ |- _ => apply remove_request_spec in H; destruct H as (_ & ? & _ & _ & _ & ? & _)
         end.

Lemma vstep_mods s x s' : modify_station env s x = Ok s' -> vstep s s'.
Proof. intro H. same_tac. apply vstep_same; assumption. Qed.
Lemma vstep_modb s x s' : modify_base env s x = Ok s' -> vstep s s'.
Proof. intro H. same_tac. apply vstep_same; assumption. Qed.
Lemma vstep_modr s x s' : modify_request env s x = Ok s' -> vstep s s'.
Proof. intro H. same_tac. apply vstep_same; assumption. Qed.
Lemma vstep_remr s k s' : remove_request env s k = Ok s' -> vstep s s'.
Proof. intro H. same_tac. apply vstep_same; assumption. Qed.
Lemma vstep_emit s e : vstep s (emit s e).
Proof. apply vstep_same; reflexivity. Qed.

Lemma apply_new_vehicle_state_vstep s vid st s' : apply_new_vehicle_state env s vid st = Ok s' -> vstep s s'.
Proof.
  unfold apply_new_vehicle_state. intro H. dmatch H. intros D K.
  assert (Hid : v_id v = vid) by (apply K; exact E).
  eapply vstep_modv; eauto; cbn; [rewrite Hid; exact E|constructor].
Qed.
Lemma pick_up_trip_vstep s vid rid s' : pick_up_trip env s vid rid = Ok s' -> vstep s s'.
Proof.
  unfold pick_up_trip, rbind. intro H. repeat dmatch H. intros D K.
  assert (Hid : v_id v = vid) by (apply K; exact E).
  refine (vstep_trans _ _ _ _ _ D K).
  - eapply vstep_modv; eauto; cbn; [rewrite Hid; exact E|constructor].
  - eapply vstep_trans; [apply vstep_emit|]. eapply vstep_remr; eauto.
Qed.
Lemma drop_off_trip_vstep s vid r s' : drop_off_trip s vid r = Ok s' -> vstep s s'.
Proof. unfold drop_off_trip. intro H. repeat dmatch H. inv H. apply vstep_emit. Qed.

Lemma vs_enter_vstep vs s s' : vs_enter env vs s = Ok s' -> vstep s s'.
Proof.
  destruct vs as [vid st]. unfold vs_enter.
  destruct st; intro H; try (eapply apply_new_vehicle_state_vstep; eassumption).
  - unfold enter_repositioning in H. repeat dmatch H. eapply apply_new_vehicle_state_vstep; eauto.
  - unfold enter_dispatch_trip in H. repeat dmatch H.
    eapply vstep_trans; [eapply vstep_modr; eauto|eapply apply_new_vehicle_state_vstep; eauto].
  - unfold enter_servicing_trip, rbind in H. repeat dmatch H.
    eapply vstep_trans; [eapply pick_up_trip_vstep; eauto|eapply apply_new_vehicle_state_vstep; eauto].
  - unfold enter_dispatch_station in H. repeat dmatch H.
    + unfold enter_charging_station, rbind in H. repeat dmatch H.
      eapply vstep_trans; [eapply vstep_mods; eauto|eapply apply_new_vehicle_state_vstep; eauto].
    + eapply apply_new_vehicle_state_vstep; eauto.
  - unfold enter_charging_station, rbind in H. repeat dmatch H.
    eapply vstep_trans; [eapply vstep_mods; eauto|eapply apply_new_vehicle_state_vstep; eauto].
  - unfold enter_charge_queueing, rbind in H. repeat dmatch H.
    eapply vstep_trans; [eapply vstep_mods; eauto|eapply apply_new_vehicle_state_vstep; eauto].
  - unfold enter_dispatch_base in H. repeat dmatch H. eapply apply_new_vehicle_state_vstep; eauto.
  - unfold enter_reserve_base, rbind in H. repeat dmatch H.
    eapply vstep_trans; [eapply vstep_modb; eauto|eapply apply_new_vehicle_state_vstep; eauto].
  - unfold enter_charging_base, rbind in H. repeat dmatch H.
    eapply vstep_trans; [eapply vstep_modb; eauto|]. eapply vstep_trans; [eapply vstep_mods; eauto|eapply apply_new_vehicle_state_vstep; eauto].
Qed.
Lemma vs_exit_vstep vs nx s s' : vs_exit env vs nx s = Ok s' -> vstep s s'.
Proof.
  destruct vs as [vid st]. unfold vs_exit. destruct st; intro H; try (inv H; apply vstep_refl).
  - unfold exit_dispatch_trip in H. repeat dmatch H; [eapply vstep_modr; eauto|inv H; apply vstep_refl].
  - repeat dmatch H. inv H. apply vstep_refl.
  - unfold exit_charging_station in H. repeat dmatch H. eapply vstep_mods; eauto.
  - unfold exit_charge_queueing in H. repeat dmatch H. inv H. eapply vstep_mods; eauto.
  - unfold exit_reserve_base in H. repeat dmatch H. eapply vstep_modb; eauto.
  - unfold exit_charging_base in H. repeat dmatch H. eapply vstep_trans; [eapply vstep_modb; eauto|eapply vstep_mods; eauto].
Qed.
Lemma transition_vstep s p n s' : transition env s p n = Ok s' -> vstep s s'.
Proof.
  unfold transition, transition_previous_to_next. intro H. repeat dmatch H. inv H.
  eapply vstep_trans; [eapply vs_exit_vstep|eapply vs_enter_vstep]; eauto.
Qed.

Lemma mech_add_energy_id (m : Mech) v c t : v_id (fst (mech_add_energy m v c t)) = v_id v.
Proof.
  unfold mech_add_energy. destruct (m_kind m).
  - unfold bev_add_energy. destruct (negb (bev_valid_charger m c)); [reflexivity|].
    destruct (Qltb (c_rate c) (m_taper m)); [reflexivity|].
    destruct (powercurve_charge m (v_energy v) (m_cap m - m_full_thr m) (c_rate c) t). reflexivity.
  - unfold ice_add_energy. destruct (negb (ice_valid_charger m c)); reflexivity.
Qed.

(* a state whose vehicle map is the old one with exactly one vehicle rewritten by a VRel step *)
Lemma vstep_of_add s s' w old : vehicles s' = PM.add (v_id w) w (vehicles s) -> dt s' = dt s ->
  find (v_id w) (vehicles s) = Some old -> VRel old w -> vstep s s'.
Proof.
  intros V Dt F R D K. split; [congruence|]. split.
  - intros k v Fk. unfold find in *. rewrite V in Fk. destruct (Pos.eq_dec k (v_id w)) as [->|N].
    + rewrite PM.gss in Fk. inversion Fk; subst. reflexivity.
    + rewrite PM.gso in Fk by exact N. apply K. exact Fk.
  - intros vid v Fv. unfold find in *. rewrite V. destruct (Pos.eq_dec vid (v_id w)) as [->|N].
    + rewrite PM.gss. exists w. split; [reflexivity|]. rewrite F in Fv. inversion Fv; subst. apply VStar_one. exact R.
    + rewrite PM.gso by exact N. exists v. split; [exact Fv|constructor].
Qed.

Lemma charge_vstep s vid sid cid s' : charge env s vid sid cid = Ok s' -> vstep s s'.
Proof.
  intro H. intros D K.
  destruct (charge_ledger env s vid sid cid s' H) as (v & st & m & c & v1 & Fv & Fs & Fm & Fc & Ev1 & L).
  cbv zeta in L. destruct L as (V & _).
  assert (Dt : dt s' = dt s).
  { pose proof (charge_reach env (fun _ => False) False s vid sid cid s' H) as R. apply (reach_no_tick env) in R. apply R. }
  assert (Hid : v_id v = vid) by (apply K; exact Fv).
  refine (vstep_of_add s s' _ v V Dt _ _ D K).
  - assert (E : v_id (veh_send_payment v1 (tariff_price st cid (v_energy v1 - v_energy v))) = v_id v1) by reflexivity.
    rewrite E. rewrite Ev1 at 1. rewrite mech_add_energy_id, Hid. exact Fv.
  - rewrite Ev1. rewrite D. constructor.
Qed.

(* move: the three outcomes of Proofs/Move.v *)
Lemma go_out_of_service_vstep s vid s' : go_out_of_service_on_empty env s vid = Ok s' -> vstep s s'.
Proof.
  unfold go_out_of_service_on_empty. intro H. destruct (find vid (vehicles s)) as [v|] eqn:F.
  - destruct (vs_exit env (vid, v_state v) (vid, OutOfService) s) as [s1| |] eqn:X.
    + eapply vstep_trans; [eapply vs_exit_vstep; eauto|eapply apply_new_vehicle_state_vstep; eauto].
    + eapply apply_new_vehicle_state_vstep; eauto.
    + eapply apply_new_vehicle_state_vstep; eauto.
  - eapply apply_new_vehicle_state_vstep; eauto.
Qed.
Lemma move_vstep s vid s' : move env s vid = Ok s' -> vstep s s'.
Proof.
  unfold move. intro H. repeat dmatch H.
  - inv H. intros D K. assert (Hid : v_id v = vid) by (apply K; assumption).
    match goal with Hm : modify_vehicle _ _ ?w = Ok _ |- _ => refine (vstep_modv _ w _ v Hm _ _ D K) end; cbn; [rewrite Hid; assumption|constructor].
  - eapply go_out_of_service_vstep; eauto.
  - inv H. intros D K. assert (Hid : v_id v = vid) by (apply K; assumption).
    eapply vstep_trans; [apply vstep_emit| |exact D|exact K].
    match goal with Hm : modify_vehicle _ _ ?w = Ok _ |- _ => eapply (vstep_modv _ w _ v Hm) end.
    + cbn. unfold mech_consume. destruct (m_kind m); cbn; rewrite Hid; assumption.
    + constructor.
Qed.

Lemma perform_update_vstep vid st s s' : perform_update env vid st s = Ok s' -> vstep s s'.
Proof.
  destruct st; cbn [perform_update]; intro H.
  - repeat dmatch H. intros D K. assert (Hid : v_id v = vid) by (apply K; assumption).
    match goal with Hm : modify_vehicle _ _ ?w = Ok _ |- _ => refine (vstep_modv _ w _ v Hm _ _ D K) end.
    + cbn. unfold mech_idle. destruct (m_kind m); cbn; rewrite Hid; assumption.
    + rewrite D. constructor.
  - eapply move_vstep; eauto.
  - eapply move_vstep; eauto.
  - destruct (move env s vid) as [a| |] eqn:M; try discriminate.
    eapply vstep_trans; [eapply move_vstep; eauto|].
    repeat dmatch H; try (inv H; apply vstep_refl). eapply drop_off_trip_vstep; eauto.
  - eapply move_vstep; eauto.
  - unfold charge_unless_full in H. repeat dmatch H; try (inv H; apply vstep_refl); eapply charge_vstep; eauto.
  - repeat dmatch H. intros D K. assert (Hid : v_id v = vid) by (apply K; assumption).
    refine (vstep_modv _ _ _ v H _ _ D K).
    + unfold mech_idle. destruct (m_kind m); cbn; rewrite Hid; assumption.
    + rewrite D. constructor.
  - eapply move_vstep; eauto.
  - inv H. apply vstep_refl.
  - repeat dmatch H. eapply charge_vstep; eauto.
  - inv H. apply vstep_refl.
Qed.
Lemma vs_update_vstep vid st s s' : vs_update env vid st s = Ok s' -> vstep s s'.
Proof.
  unfold vs_update. intro H. repeat dmatch H.
  - eapply vstep_trans; [eapply transition_vstep; eauto|eapply perform_update_vstep; eauto].
  - eapply perform_update_vstep; eauto.
Qed.
Lemma step_vehicle_vstep s vs : vstep s (step_vehicle env s vs).
Proof. unfold step_vehicle. destruct (vs_update env (fst vs) (snd vs) s) eqn:E; try apply vstep_refl. eapply vs_update_vstep; eauto. Qed.
Lemma fold_vstep {X} (f : Sim -> X -> Sim) (l : list X) : (forall s x, vstep s (f s x)) -> forall s, vstep s (fold_left f l s).
Proof. intro Hf. induction l as [|x l IH]; intro s; cbn; [apply vstep_refl|]. eapply vstep_trans; [apply Hf|apply IH]. Qed.

Lemma driver_write_vstep s e vid dr s' cur : allow = true -> find vid (vehicles s) = Some cur ->
  modify_vehicle env (emit s e) (cur <| v_driver := dr |>) = Ok s' -> vstep s s'.
Proof.
  intros Al F M D K. assert (Hid : v_id cur = vid) by (apply K; exact F).
  eapply vstep_trans; [apply vstep_emit| |exact D|exact K].
  eapply (vstep_modv _ _ _ cur M); [cbn; rewrite Hid; exact F|constructor; exact Al].
Qed.
Lemma driver_update_vstep rt s v s' : allow = true -> driver_update env rt s v = Ok s' -> vstep s s'.
Proof.
  unfold driver_update, apply_new_driver_state. intros Al H. destruct (v_driver v).
  - inv H. apply vstep_refl.
  - destruct (sched_active env sched (sim_time s)) as [[|]|]; try (inv H; apply vstep_refl).
    destruct (find (v_id v) (vehicles s)) as [cur|] eqn:F; [|discriminate]. cbn in H. rewrite F in H.
    eapply driver_write_vstep; eauto.
  - destruct (find (v_id v) (vehicles s)) as [cur|] eqn:F; [|discriminate].
    destruct (sched_active env sched (sim_time s)) as [[|]|]; try (inv H; apply vstep_refl).
    cbn in H. rewrite F in H. eapply driver_write_vstep; eauto.
Qed.

Theorem step_op_vstep s o : (allow = true \/ forall rt, o <> OpDrivers rt) -> vstep s (step_op env s o).
Proof.
  intro Al. destruct o; cbn [step_op].
  - unfold apply_instructions. apply fold_vstep. intros s0 [i r]. unfold apply_phase2.
    destruct (transition env s0 (fst r) (snd r)) eqn:E; try apply vstep_refl.
    eapply vstep_trans; [eapply transition_vstep; eauto|]. apply vstep_same; reflexivity.
  - unfold perform_vehicle_state_updates. apply fold_vstep. intros. apply step_vehicle_vstep.
  - unfold cancel_requests. apply fold_vstep. intros s0 rid. unfold cancel_one.
    destruct (find rid (requests s0)); [|apply vstep_refl]. destruct (Z.ltb _ _); [apply vstep_refl|].
    destruct (remove_request env s0 rid) eqn:E; try apply vstep_refl.
    eapply vstep_trans; [eapply vstep_remr; eauto|apply vstep_emit].
  - unfold admit_requests. apply fold_vstep. intros s0 r. unfold admit_request.
    repeat (match goal with |- context [if ?c then _ else _] => destruct c end; try apply vstep_refl).
    destruct (add_request env s0 r) eqn:E; try apply vstep_refl.
    eapply vstep_trans; [|apply vstep_emit]. unfold add_request in E. destruct (find (r_id r) (requests s0)).
    + eapply vstep_modr; eauto.
    + unfold add_request_new in E. destruct (negb _); [discriminate|]. inv E. apply vstep_same; reflexivity.
  - apply fold_vstep. intros s0 u. unfold update_station_prices. destruct (find (fst u) (stations s0)); [|apply vstep_refl].
    destruct (modify_station env s0 _) eqn:E; try apply vstep_refl. eapply vstep_mods; eauto.
  - destruct Al as [Al|Al]; [|exfalso; eapply Al; reflexivity]. unfold perform_driver_state_updates.
    assert (G : forall l acc, vstep s acc -> vstep s (fold_left (fun acc v => match driver_update env range_target acc v with Ok s' => s' | _ => s end) l acc)).
    { induction l as [|v l IH]; intros acc Hacc; cbn [fold_left]; [exact Hacc|]. apply IH.
      destruct (driver_update env range_target acc v) eqn:E; try apply vstep_refl. eapply vstep_trans; [exact Hacc|]. eapply driver_update_vstep; eauto. }
    apply G. apply vstep_refl.
  - apply vstep_same; reflexivity.
  - apply vstep_same; reflexivity.
Qed.

(* every finite history of operations, any controller *)
Theorem ops_vstep ops : allow = true -> forall s, vstep s (fold_left (step_op env) ops s).
Proof. intro Al. induction ops as [|o ops IH]; intro s; cbn [fold_left]; [apply vstep_refl|]. eapply vstep_trans; [apply step_op_vstep; auto|apply IH]. Qed.
End VF.

(* ---------- per-vehicle invariants over whole histories ---------- *)
Section Inv.
Local Open Scope Q_scope.
Variable d : Z.
Variable allow : bool.
(* what no write ever changes *)
Lemma VRel_static v v' : VRel d allow v v' -> v_id v' = v_id v /\ v_mem v' = v_mem v /\ v_mech v' = v_mech v.
Proof.
  destruct 1; cbn; auto.
  - unfold veh_send_payment. cbn. unfold mech_add_energy. destruct (m_kind m).
    + unfold bev_add_energy. destruct (negb _); [auto|]. destruct (Qltb _ _); [cbn; auto|].
      destruct (powercurve_charge _ _ _ _ _). cbn. auto.
    + unfold ice_add_energy. destruct (negb _); cbn; auto.
  - unfold mech_idle. destruct (m_kind m); cbn; auto.
  - unfold mech_idle. destruct (m_kind m); cbn; auto.
  - unfold mech_consume. destruct (m_kind m); cbn; auto.
Qed.
(* the energy balance: level - gained + expended never changes (C04: "at all times equals its initial energy plus
   everything it has gained minus everything it has expended") — unconditionally, for both powertrains *)
Definition balance (v : Vehicle) : Q := v_energy v - v_gained v + v_expended v.
Lemma VRel_balance v v' : VRel d allow v v' -> balance v' == balance v.
Proof.
  unfold balance. destruct 1; cbn; try lra.
  - unfold mech_add_energy. destruct (m_kind m).
    + unfold bev_add_energy. destruct (negb _); [cbn; lra|]. destruct (Qltb _ _).
      * unfold veh_modify_energy, veh_tick_energy_gained. cbn. lra.
      * destruct (powercurve_charge _ _ _ _ _). unfold veh_modify_energy, veh_tick_energy_gained. cbn. lra.
    + unfold ice_add_energy. destruct (negb _); [cbn; lra|]. unfold veh_modify_energy, veh_tick_energy_gained. cbn. lra.
  - unfold mech_idle. destruct (m_kind m); [unfold bev_idle|unfold ice_idle]; unfold veh_modify_energy, veh_tick_energy_expended; cbn; lra.
  - unfold mech_idle. destruct (m_kind m); [unfold bev_idle|unfold ice_idle]; unfold veh_modify_energy, veh_tick_energy_expended; cbn; lra.
  - unfold mech_consume. destruct (m_kind m); [unfold bev_consume_energy|unfold ice_consume_energy]; unfold veh_modify_energy, veh_tick_energy_expended, veh_tick_distance; cbn; lra.
Qed.
Lemma VStar_static v v' : VStar d allow v v' -> v_id v' = v_id v /\ v_mem v' = v_mem v /\ v_mech v' = v_mech v.
Proof. induction 1; [auto|]. apply VRel_static in H. intuition congruence. Qed.
Lemma VStar_balance v v' : VStar d allow v v' -> balance v' == balance v.
Proof. induction 1; [reflexivity|]. apply VRel_balance in H. rewrite IHVStar. exact H. Qed.
End Inv.
(* without driver writes the driver state is untouched *)
Lemma VRel_driver d v v' : VRel d false v v' -> v_driver v' = v_driver v.
Proof.
  destruct 1; cbn; auto; try discriminate.
  - unfold mech_add_energy. destruct (m_kind m).
    + unfold bev_add_energy. destruct (negb _); [auto|]. destruct (Qltb _ _); [cbn; auto|]. destruct (powercurve_charge _ _ _ _ _). cbn. auto.
    + unfold ice_add_energy. destruct (negb _); cbn; auto.
  - unfold mech_idle. destruct (m_kind m); cbn; auto.
  - unfold mech_idle. destruct (m_kind m); cbn; auto.
  - unfold mech_consume. destruct (m_kind m); cbn; auto.
Qed.
Lemma VStar_driver d v v' : VStar d false v v' -> v_driver v' = v_driver v.
Proof. induction 1; [auto|]. apply VRel_driver in H. congruence. Qed.

(* ---------- corollaries over whole histories, any controller ---------- *)
Section Hist.
Variable env : Env.
Local Open Scope Q_scope.
Theorem history_vehicle_frame ops s0 : vkeys s0 -> forall vid v0, find vid (vehicles s0) = Some v0 ->
  exists v, find vid (vehicles (fold_left (step_op env) ops s0)) = Some v /\
            v_id v = v_id v0 /\ v_mem v = v_mem v0 /\ v_mech v = v_mech v0 /\ balance v == balance v0.
Proof.
  intros K vid v0 F. destruct (ops_vstep env (dt s0) true ops eq_refl s0 eq_refl K) as (_ & _ & V).
  destruct (V vid v0 F) as (v & Fv & S). exists v. split; [exact Fv|].
  destruct (VStar_static _ _ _ _ S) as (A & B & C). repeat split; auto. apply (VStar_balance _ _ _ _ S).
Qed.
End Hist.
