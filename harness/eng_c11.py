"""eng_c11.py — C11: timed inputs through the real update functions (UpdateRequestsFromFile, CancelRequests,
ChargingPriceUpdate over DictReaderStepper.from_iterator) for random step lengths, start times, timeouts and arrival
patterns.  (i) monitor: closed-form expectation per step; (ii) correspondence: the rows the implementation's reader
released per step vs Model/Reader.v `windows` evaluated by vm_compute."""
import random, json, os, time
from hw import *
import coqrun
from nrel.hive.util.iterators import DictReaderStepper
from nrel.hive.state.simulation_state.update.update_requests_from_file import UpdateRequestsFromFile
from nrel.hive.state.simulation_state.update.charging_price_update import ChargingPriceUpdate
from nrel.hive.model.request.request_rate_structure import RequestRateStructure

DELTAS = [1, 7, 30, 60, 61, 90, 600]

class _Recorder:
    """wraps the reader's iterator protocol to see which rows each step consumed"""
    def __init__(self, stepper):
        self.stepper = stepper
        self.current = []
        orig = stepper.read_until_stop_condition
        def wrapped(stop_condition):
            it = orig(stop_condition)
            rec = self
            class _It:
                def __iter__(s): return s
                def __next__(s):
                    row = next(it)
                    rec.current.append(row)
                    return row
            return _It()
        stepper.read_until_stop_condition = wrapped
    def take(self):
        out, self.current = self.current, []
        return out

def gen_case(rng):
    delta = rng.choice(DELTAS)
    t0 = rng.choice([0, 3600 * 7, 86400 - 3 * delta, 86400 * 2 + 5]) + rng.randint(0, 600)
    cancel = rng.choice([delta, 2 * delta + 1, 60, 300, 600])
    n_steps = rng.randint(6, 16)
    fleets = rng.choice([[], [], ['fa'], ['fa', 'fb']])
    # stations: two clusters; inside a cluster the cells share the search cell (mock search resolution 10) but differ at resolution 12+
    base = [(39.7539, -104.974), (39.7539 + 0.0004, -104.974 + 0.0005), (39.78, -104.93)]
    geoids = [h3.geo_to_h3(la, lo, 15) for la, lo in base]
    cfg = ml.mock_config()
    # the resolution of the coarse search index differs from case to case (all cases of a run share the station positions, the
    # regions naming them and one process: which stations a region names must not depend on an earlier simulation).  Own stream.
    search_res = random.Random(f'search-res|{t0}|{delta}|{cancel}').choice([10, 10, 9, 11, 12, 8, 7, 5])
    cfg = cfg._replace(sim=cfg.sim._replace(request_cancel_time_seconds=cancel, timestep_duration_seconds=delta, sim_h3_search_resolution=search_res))
    env = ml.mock_env(config=cfg, fleet_ids=frozenset(fleets))
    n_st = rng.randint(1, 3)
    stations = [ml.mock_station_from_geoid(f's{k}', geoids[k], chargers={'DCFC': 1, 'LEVEL_2': 1}, env=env) for k in range(n_st)]
    sim = ml.mock_sim(sim_time=t0, sim_timestep_duration_seconds=delta, stations=tuple(stations), h3_search_res=search_res)
    horizon = t0 + n_steps * delta
    # request rows: bursts, gaps, identical timestamps, some before the start (late admission / expired on arrival)
    rows, t = [], t0 - rng.choice([0, 0, cancel // 2, cancel + 5, 2 * cancel + 50])
    k = 0
    while t < horizon + delta and k < 40:
        burst = rng.choice([1, 1, 1, 2, 3])
        for _ in range(burst):
            o, d = rng.choice(geoids), rng.choice(geoids)
            (olat, olon), (dlat, dlon) = h3.h3_to_geo(o), h3.h3_to_geo(d)
            row = {'request_id': f'r{k:02d}', 'o_lat': repr(olat), 'o_lon': repr(olon), 'd_lat': repr(dlat), 'd_lon': repr(dlon),
                   'departure_time': str(max(0, t)), 'passengers': '1'}
            if fleets and rng.random() < 0.8:
                row['fleet_id'] = rng.choice(fleets)
            elif not fleets and rng.random() < 0.1:
                row['fleet_id'] = 'fa'
            rows.append(row); k += 1
        t += rng.choice([0, 0, 1, delta - 1, delta, delta + 1, 2 * delta, rng.randint(1, 3 * delta + 3)])
    rows.sort(key=lambda r: int(r['departure_time']))
    # price rows: by station id (possibly naming only some stations, or an unknown one) or by region at several resolutions
    # one addressing mode per table (like the shipped scenarios): by station id, or by region at ONE resolution, so that two
    # different keys never name the same (station, plug) inside one window — the order between such rows is not defined
    # by the property (DESIGN §5 C11)
    prows, t = [], t0 - rng.choice([0, 5, delta])
    mode = rng.choice(['station_id', 'geoid8', 'geoid10', 'geoid12', 'geoid15'])
    while t < horizon and len(prows) < 12:
        charger = rng.choice(['DCFC', 'LEVEL_2'])
        price = rng.choice([0.1, 0.25, 0.4, 0.05])
        # a tariff may go (back) to exactly zero — free charging — or below.  Own stream.
        rz = random.Random(f'zero-price|{t}|{price}|{len(prows)}')
        if rz.random() < 0.2:
            price = rz.choice([0.0, 0.0, -0.05])
        if mode == 'station_id':
            key = ('station_id', rng.choice([s.id for s in stations] + (['s9'] if rng.random() < 0.2 else [])))
        else:
            st = rng.choice(stations)
            res = int(mode[5:])
            key = ('geoid', h3.h3_to_parent(st.geoid, res) if res < 15 else st.geoid)
        row = {'time': str(max(0, t)), 'charger_id': charger, 'price_kwh': repr(price), key[0]: key[1]}
        prows.append(row)
        t += rng.choice([0, 1, delta, delta + 1, 2 * delta, rng.randint(1, 2 * delta + 2)])
    # some cases read the request rows the way a scenario does: from a csv file through UpdateRequestsFromFile.build (whole file in
    # memory, or lazily).  Own stream.
    rf = random.Random(f'via-file|{t0}|{delta}|{len(rows)}')
    via_file = rf.choice([None, None, 'memory', 'memory', 'lazy']) if rows else None
    return dict(delta=delta, t0=t0, cancel=cancel, n_steps=n_steps, fleets=fleets, env=env, sim=sim, rows=rows, prows=prows, stations=stations, via_file=via_file)

def names_station(sim, row, st):
    if 'station_id' in row:
        return row['station_id'] == st.id
    k = row['geoid']
    res = h3.h3_get_resolution(k)
    return h3.h3_to_parent(st.geoid, res) == k if res < 15 else st.geoid == k

def run_case(c):
    """returns (violations, windows_impl, times)"""
    env, sim = c['env'], c['sim']
    rep = CapturingReporter()
    env = env.set_reporter(rep)
    tmpdir = None
    if c.get('via_file'):
        import csv, tempfile
        tmpdir = tempfile.mkdtemp(prefix='hive-verif-c11-', dir='/var/tmp')
        path = os.path.join(tmpdir, 'requests.csv')
        cols = sorted(set(k for r in c['rows'] for k in r))
        with open(path, 'w', newline='') as f:
            wr = csv.DictWriter(f, fieldnames=cols)
            wr.writeheader()
            for r in c['rows']:
                wr.writerow(r)
        req_update = UpdateRequestsFromFile.build(path, lazy_file_reading=(c['via_file'] == 'lazy'))
        rec = _Recorder(req_update.reader)
    else:
        req_reader = DictReaderStepper.from_iterator(iter(c['rows']), 'departure_time', parser=SimTime.build)
        rec = _Recorder(req_reader)
        req_update = UpdateRequestsFromFile(req_reader, RequestRateStructure())
    price_update = ChargingPriceUpdate(DictReaderStepper.from_iterator(iter(c['prows']), 'time', parser=SimTime.build), use_defaults=False)
    cancel_update = CancelRequests()
    viol, windows, times = [], [], []
    added, cancelled = {}, {}
    cancel, delta, fleets = c['cancel'], c['delta'], c['fleets']
    prices_now = {(s.id, cid): 0.0 for s in c['stations'] for cid in ('DCFC', 'LEVEL_2')}
    applied_rows = 0
    for k in range(c['n_steps']):
        now = int(sim.sim_time)
        times.append(now)
        try:
            sim, _ = price_update.update(sim, env)
        except Exception as ex:
            viol.append(('C11', 'price_update_raised', {'step': k, 'time': now, 'exception': type(ex).__name__, 'message': str(ex)[:120]}))
            if tmpdir: __import__('shutil').rmtree(tmpdir, ignore_errors=True)
            return viol, windows, times
        # expected prices: every row with time < now not applied yet, in file order
        while applied_rows < len(c['prows']) and int(c['prows'][applied_rows]['time']) < now:
            row = c['prows'][applied_rows]; applied_rows += 1
            for st in c['stations']:
                if names_station(sim, row, st) and (st.id, row['charger_id']) in prices_now:
                    prices_now[(st.id, row['charger_id'])] = float(row['price_kwh'])
        for (sid, cid), p in sorted(prices_now.items()):
            got = sim.stations[sid].state[cid].price_per_kwh
            if abs(got - p) > 1e-12:
                viol.append(('C11', 'price_not_as_tabled', {'step': k, 'time': now, 'station': sid, 'charger': cid, 'price': got, 'expected': p}))
        sim, _ = req_update.update(sim, env)
        windows.append([r['request_id'] for r in rec.take()])
        sim, _ = cancel_update.update(sim, env)
        for r in rep.take():
            if r.report_type == ReportType.ADD_REQUEST_EVENT:
                added.setdefault(r.report['request_id'], []).append(k)
            elif r.report_type == ReportType.CANCEL_REQUEST_EVENT:
                cancelled.setdefault(r.report['request_id'], []).append(k)
        sim = sso.tick(sim)
    # closed form
    T = times
    for row in c['rows']:
        rid, dep = row['request_id'], int(row['departure_time'])
        js = [j for j, t in enumerate(T) if dep < t]
        member_ok = (bool(fleets) == ('fleet_id' in row))
        exp_add = None
        if js and T[js[0]] < dep + cancel and member_ok:
            exp_add = js[0]
        got = added.get(rid, [])
        if got != ([] if exp_add is None else [exp_add]):
            viol.append(('C11', 'admission_step', {'request': rid, 'departure': dep, 'added_at_steps': got, 'expected_step': exp_add, 'step_times': T[:3] + ['...'], 'delta': delta, 'timeout': cancel}))
        exp_cancel = None
        if exp_add is not None:
            cs = [j for j, t in enumerate(T) if j >= exp_add and t >= dep + cancel]
            exp_cancel = cs[0] if cs else None
        gotc = cancelled.get(rid, [])
        if gotc != ([] if exp_cancel is None else [exp_cancel]):
            viol.append(('C11', 'cancel_step', {'request': rid, 'departure': dep, 'cancelled_at_steps': gotc, 'expected_step': exp_cancel, 'delta': delta, 'timeout': cancel}))
    if tmpdir: __import__('shutil').rmtree(tmpdir, ignore_errors=True)
    return viol, windows, times

def coq_windows_term(c, times):
    rows = lst([f'({ztxt(int(r["departure_time"]))}, {ztxt(int(r["request_id"][1:]))})' for r in c['rows']])
    ts = lst([ztxt(t) for t in times])
    return f'(map (map snd) (windows {ts} {rows}))'

def engine(res, spec, tier, seed, extended=False):
    n = 150 if tier == 'quick' else 1500
    if extended:
        n = 600
    t0 = time.time()
    cases, terms, impl_windows = [], [], []
    found_kinds = set()
    dist = {'price_rows': 0, 'request_rows': 0, 'region_rows': 0, 'steps': 0}
    for i in range(n):
        rng = random.Random(seed * 7919 + i)
        c = gen_case(rng)
        viol, windows, times = run_case(c)
        res.cov['evaluations'] += 1
        dist['price_rows'] += len(c['prows']); dist['request_rows'] += len(c['rows']); dist['steps'] += len(times)
        dist['region_rows'] += sum(1 for r in c['prows'] if 'geoid' in r)
        if len(res.cov['samples']) < 4 and i < 2:
            res.cov['samples'].append({'engine': 'eng_c11', 'case': i, 'delta': c['delta'], 't0': c['t0'], 'timeout': c['cancel'],
                                       'request_rows': [(r['request_id'], r['departure_time']) for r in c['rows'][:6]], 'price_rows': c['prows'][:3]})
        if c['rows'] and c['prows']:
            res.cov['distinct_nontrivial'] += 1
        for (p, kind, detail) in viol:
            if kind not in found_kinds:
                found_kinds.add(kind)
                res.add_found(kind, detail, {'engine': 'eng_c11', 'seed': seed, 'case': i, 'kind': kind, 'detail': detail})
        if len(windows) == len(times):
            cases.append(i); terms.append(coq_windows_term(c, times)); impl_windows.append(windows)
    if not extended and terms:
        # correspondence of the reader model: evaluate all cases in one coqc call, print one list per case
        hdr = ('From Hive.Base Require Import Prelude.\nFrom Hive.Model Require Import Types Reader.\nFrom Hive.Gen Require Import Kernels.\n')
        out = coqrun.eval_raw('[' + '; '.join(terms) + ']', header=hdr, timeout=600)
        import re
        body = out[out.index('=') + 1:out.rindex(':')] if '=' in out and not out.startswith('ERROR') else None
        if body is None:
            res.add_broken('correspondence', 'reader model could not be evaluated', out[-800:])
        else:
            # parse nested lists of integers
            txt = re.sub(r'%Z', '', body)
            txt = txt.replace(';', ',')
            try:
                model = json.loads(re.sub(r'\s+', '', txt))
            except Exception as ex:
                model = None
                res.add_broken('correspondence', 'could not parse reader model output', txt[:300])
            if model is not None:
                bad = 0
                for ci, mw, iw in zip(cases, model, impl_windows):
                    iw_n = [[int(x[1:]) for x in w] for w in iw]
                    if mw != iw_n:
                        bad += 1
                        if bad == 1:
                            res.add_broken('correspondence', f'reader windows differ (eng_c11 case {ci})', {'model': mw[:6], 'impl': iw_n[:6]})
                res.notes['reader_correspondence'] = {'cases': len(cases), 'disagreements': bad}
    res.notes.setdefault('eng_c11', {}).update(dist)
    res.notes['eng_c11']['wall_s'] = round(time.time() - t0, 1)

def replayer(payload):
    if payload.get('engine') != 'eng_c11':
        return None
    rng = random.Random(payload['seed'] * 7919 + payload['case'])
    c = gen_case(rng)
    viol, _, _ = run_case(c)
    hits = [v for v in viol if v[1] == payload['kind']]
    for h in hits[:3]:
        print('reproduced:', json.dumps(h, default=str))
    return bool(hits)
