(* Props/C02.v — property theorems only.  C02: charger, queue and stall counts match the vehicles using them.
   Proved for all inputs, over the counters regenerated from charger_state.py / base.py on every run: every operation
   moves exactly one counter by exactly one, refuses (Err / None) instead of leaving [0, total], keeps the bounds
   invariant and touches nothing else.
   PARTIAL: the equation "installed - free = number of vehicles charging there" over whole histories (Inv_counts, DESIGN §5
   C02) is decided by correspondence (contention profile) + monitor c02_counts, not yet by a theorem. *)
From Hive.Base Require Import Prelude.
From Hive.Model Require Import Types KernelBase.
From Hive.Gen Require Import Kernels.
From Hive.Proofs Require Import Counters.
Local Open Scope Z_scope.

Theorem C02_checkout_plug : forall cs, 0 <= cs_avail cs ->
  match cs_decrement_available cs with
  | Ok cs' => 0 < cs_avail cs /\ cs_avail cs' = cs_avail cs - 1 /\ cs_enq cs' = cs_enq cs /\ cs_same_but_counts cs cs'
  | Err => cs_avail cs = 0 | Reject => False end.
Proof. exact cs_decrement_available_spec. Qed.
Theorem C02_return_plug : forall cs,
  match cs_increment_available cs with
  | Ok cs' => cs_avail cs < cs_total cs /\ cs_avail cs' = cs_avail cs + 1 /\ cs_enq cs' = cs_enq cs /\ cs_same_but_counts cs cs'
  | Err => cs_total cs <= cs_avail cs | Reject => False end.
Proof. exact cs_increment_available_spec. Qed.
Theorem C02_enqueue : forall cs, let cs' := cs_increment_enqueued cs in
  cs_enq cs' = cs_enq cs + 1 /\ cs_avail cs' = cs_avail cs /\ cs_same_but_counts cs cs'.
Proof. exact cs_increment_enqueued_spec. Qed.
Theorem C02_dequeue : forall cs, 0 <= cs_enq cs ->
  match cs_decrement_enqueued cs with
  | Ok cs' => 0 < cs_enq cs /\ cs_enq cs' = cs_enq cs - 1 /\ cs_avail cs' = cs_avail cs /\ cs_same_but_counts cs cs'
  | Err => cs_enq cs = 0 | Reject => False end.
Proof. exact cs_decrement_enqueued_spec. Qed.
Theorem C02_plug_bounds_invariant : forall cs, cs_bounds cs ->
  (forall cs', cs_decrement_available cs = Ok cs' -> cs_bounds cs') /\
  (forall cs', cs_increment_available cs = Ok cs' -> cs_bounds cs') /\
  cs_bounds (cs_increment_enqueued cs) /\
  (forall cs', cs_decrement_enqueued cs = Ok cs' -> cs_bounds cs').
Proof. exact cs_bounds_preserved. Qed.
Theorem C02_checkout_stall : forall b,
  match base_checkout_stall b with
  | Some b' => 0 < b_avail b /\ b_avail b' = b_avail b - 1 /\ base_same_but_stalls b b'
  | None => b_avail b <= 0 end.
Proof. exact base_checkout_stall_spec. Qed.
Theorem C02_return_stall : forall b,
  match base_return_stall b with
  | Ok b' => b_avail b < b_total b /\ b_avail b' = b_avail b + 1 /\ base_same_but_stalls b b'
  | Err => b_total b <= b_avail b | Reject => False end.
Proof. exact base_return_stall_spec. Qed.
Theorem C02_stall_bounds_invariant : forall b, base_bounds b ->
  (forall b', base_checkout_stall b = Some b' -> base_bounds b') /\
  (forall b', base_return_stall b = Ok b' -> base_bounds b').
Proof. exact base_bounds_preserved. Qed.

Print Assumptions C02_checkout_plug. Print Assumptions C02_return_plug. Print Assumptions C02_enqueue.
Print Assumptions C02_dequeue. Print Assumptions C02_plug_bounds_invariant. Print Assumptions C02_checkout_stall.
Print Assumptions C02_return_stall. Print Assumptions C02_stall_bounds_invariant.
