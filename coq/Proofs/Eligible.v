(* Proofs/Eligible.v — what the built-in trip dispatcher offers to the assignment solver, over the two filter closures of
   Dispatcher.generate_instructions regenerated from the source (dispatcher_valid_vehicle, dispatcher_valid_request): whatever
   the solver then does with the two lists, only eligible vehicles and unassigned requests of the fleet can be paired. *)
From Hive.Base Require Import Prelude.
From Hive.Model Require Import Types KernelBase.
From Hive.Gen Require Import Kernels.
Local Open Scope Q_scope.

Definition mech_range (m : Mech) (v : Vehicle) : Q :=
  match m_kind m with BEV => bev_range_remaining_km m v | ICE => ice_range_remaining_km m v end.

(* a request is offered exactly when nobody is assigned to it yet and it belongs to the fleet being solved *)
Theorem valid_request_spec fleet r : dispatcher_valid_request fleet r = true <->
  r_disp r = None /\ match fleet with Some f => grant_access_to_membership_id (r_mem r) f = true | None => True end.
Proof.
  unfold dispatcher_valid_request. cbv zeta. rewrite andb_true_iff, negb_true_iff. destruct (r_disp r); destruct fleet; split; intros [A B]; split; auto; discriminate.
Qed.

(* a vehicle is offered only if its activity is one of the configured dispatchable ones, its driver is available (on shift), it
   belongs to the fleet being solved, its powertrain is known and its remaining range exceeds the matching threshold (and, when it
   is charging at a base, is not below the base-charging threshold) *)
Theorem valid_vehicle_spec env states mr br fleet v : dispatcher_valid_vehicle env states mr br fleet v = true ->
  In (state_kind (v_state v)) states /\ driver_available (v_driver v) = true /\
  match fleet with Some f => grant_access_to_membership_id (v_mem v) f = true | None => True end /\
  exists m, e_mech env (v_mech v) = Some m /\ mr < mech_range m v /\
            (forall b c, v_state v = ChargingBase b c -> br <= mech_range m v).
Proof.
  unfold dispatcher_valid_vehicle. cbv zeta.
  destruct (existsb (skind_eqb (state_kind (v_state v))) states) eqn:E1; cbn [negb]; [|discriminate].
  destruct (driver_available (v_driver v)) eqn:E2; cbn [negb]; [|discriminate].
  assert (In1 : In (state_kind (v_state v)) states).
  { apply existsb_exists in E1. destruct E1 as (k & I & Ek). apply skind_eqb_eq in Ek. subst. exact I. }
  assert (Fl : (match fleet with Some f => negb (grant_access_to_membership_id (v_mem v) f) | None => false end) = false ->
               match fleet with Some f => grant_access_to_membership_id (v_mem v) f = true | None => True end).
  { destruct fleet; [rewrite negb_false_iff; auto|auto]. }
  destruct (match fleet with Some f => negb (grant_access_to_membership_id (v_mem v) f) | None => false end) eqn:E3; [discriminate|].
  destruct (e_mech env (v_mech v)) as [m|] eqn:Em; [|discriminate].
  fold (mech_range m v).
  destruct (match v_state v with ChargingBase _ _ => true | _ => false end && Qltb (mech_range m v) br)%bool eqn:E4; [discriminate|].
  intro H. apply Qltb_lt in H. split; [exact In1|]. split; [reflexivity|]. split; [apply Fl; reflexivity|].
  exists m. split; [reflexivity|]. split; [exact H|]. intros b c Es. rewrite Es in E4. cbn in E4. apply Qltb_ge in E4. exact E4.
Qed.

(* corollaries in the words of the properties *)
Corollary off_shift_driver_never_offered env states mr br fleet v :
  driver_available (v_driver v) = false -> dispatcher_valid_vehicle env states mr br fleet v = false.
Proof.
  intro D. destruct (dispatcher_valid_vehicle env states mr br fleet v) eqn:E; [|reflexivity].
  apply valid_vehicle_spec in E. destruct E as (_ & A & _). congruence.
Qed.
Corollary assigned_request_never_offered fleet r vid : r_disp r = Some vid -> dispatcher_valid_request fleet r = false.
Proof.
  intro D. destruct (dispatcher_valid_request fleet r) eqn:E; [|reflexivity]. apply valid_request_spec in E. destruct E as [A _]. congruence.
Qed.
