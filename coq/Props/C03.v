(* Props/C03.v — property theorems only.  C03: every ride request is resolved exactly once.
   Proved on the step model: (1) no instruction can divert a vehicle carrying passengers — the whole simulation state is
   unchanged; (2) a pickup credits the fare once to the vehicle that picks up, removes the request from the waiting set
   and files exactly one Pickup event, in one state update, and is impossible for a request that is not waiting (so
   never after a cancel or a previous pickup); (3) a cancellation removes only a waiting request that has timed out and
   files exactly one Cancel event.
   PARTIAL: the ledger over whole histories (each admitted id: #pickup + #cancel <= 1, waiting iff 0) is decided by
   correspondence + the Ledger monitor, not yet by a theorem. *)
From Hive.Base Require Import Prelude.
From Hive.Model Require Import Types KernelBase SimOps States Step.
From Hive.Gen Require Import Kernels.
From Hive.Proofs Require Import Trip.

Theorem C03_no_divert : forall env s i vid q d l r nx,
  apply_phase2 env s (i, ((vid, ServicingTrip q d (l :: r)), nx)) = s.
Proof. exact no_divert. Qed.
Theorem C03_pickup_once : forall env s vid rid s', pick_up_trip env s vid rid = Ok s' ->
  exists v r, find vid (vehicles s) = Some v /\ find rid (requests s) = Some r /\
    vehicles s' = PM.add (v_id v) (veh_receive_payment v (r_value r)) (vehicles s) /\
    requests s' = PM.remove rid (requests s) /\
    log s' = EvPickup rid vid (sim_time s) (r_dep r) (r_value r) :: log s /\
    stations s' = stations s /\ bases s' = bases s.
Proof. exact pick_up_trip_spec. Qed.
Theorem C03_pickup_needs_waiting : forall env s vid rid, find rid (requests s) = None ->
  forall s', pick_up_trip env s vid rid <> Ok s'.
Proof. exact pick_up_needs_waiting. Qed.
Theorem C03_cancel_once : forall env s rid,
  cancel_one env s rid = s \/
  exists r, find rid (requests s) = Some r /\ (r_dep r + e_cancel env <= sim_time s)%Z /\
            requests (cancel_one env s rid) = PM.remove rid (requests s) /\
            log (cancel_one env s rid) = EvCancel rid (r_dep r) (sim_time s) :: log s /\
            vehicles (cancel_one env s rid) = vehicles s.
Proof. exact cancel_one_spec. Qed.
Print Assumptions C03_no_divert. Print Assumptions C03_pickup_once.
Print Assumptions C03_pickup_needs_waiting. Print Assumptions C03_cancel_once.
