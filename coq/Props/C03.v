(* Props/C03.v — property theorems only.  C03: every ride request is resolved exactly once.
   Proved on the step model: (1) no instruction can divert a vehicle carrying passengers — the whole simulation state is
   unchanged; (2) a pickup credits the fare once to the vehicle that picks up, removes the request from the waiting set
   and files exactly one Pickup event, in one state update, and is impossible for a request that is not waiting (so
   never after a cancel or a previous pickup); (3) a cancellation removes only a waiting request that has timed out and
   files exactly one Cancel event.
   Over whole histories (C03_ledger_over_histories, through the macro frame theorem; instructions from any controller): replay
   the event log oldest first, giving every request id a status (request_added -> Waiting, pickup -> PickedUp, cancel ->
   Cancelled).  After every finite sequence of step operations (a) a request is in the waiting map exactly when its status is
   Waiting — so a request leaves the map only through a pickup or a cancel event: nothing vanishes without a trace — and (b)
   every pickup and every cancel event in the log was filed for a request that was Waiting at that moment.  Consequence
   (C03_closed_once): after a pickup or a cancellation of an id there is no further pickup or cancellation of that id unless
   the id is admitted again in between: never both, never twice.
   Drop-off clause over whole histories (C03_dropoffs_over_histories, C03_dropped_once): every drop-off event in the log was filed
   by the vehicle that had picked that request up and had not dropped it yet; after a drop-off by a vehicle there is no further
   drop-off by it until it picks somebody up again; a vehicle in ServicingTrip with road ahead is carrying its request undropped.
   (That the drop-off happens at the destination: C07_trip_ends_at_destination.  That it eventually happens is not a safety
   property: a vehicle may run out of energy or the run may end first, as the property says.) *)
From Hive.Base Require Import Prelude.
From Hive.Model Require Import Types KernelBase SimOps States Step.
From Hive.Gen Require Import Kernels.
From Hive.Proofs Require Import Trip VehFrame Macro LedgerInv DropInv.

Theorem C03_no_divert : forall env s i vid q d l r nx,
  apply_phase2 env s (i, ((vid, ServicingTrip q d (l :: r)), nx)) = s.
Proof. exact no_divert. Qed.
Theorem C03_pickup_once : forall env s vid rid s', pick_up_trip env s vid rid = Ok s' ->
  exists v r, find vid (vehicles s) = Some v /\ find rid (requests s) = Some r /\
    vehicles s' = PM.add (v_id v) (veh_receive_payment v (r_value r)) (vehicles s) /\
    requests s' = PM.remove rid (requests s) /\
    log s' = EvPickup rid vid (sim_time s) (r_dep r) (r_value r) :: log s /\
    stations s' = stations s /\ bases s' = bases s.
Proof. exact pick_up_trip_spec. Qed.
Theorem C03_pickup_needs_waiting : forall env s vid rid, find rid (requests s) = None ->
  forall s', pick_up_trip env s vid rid <> Ok s'.
Proof. exact pick_up_needs_waiting. Qed.
Theorem C03_cancel_once : forall env s rid,
  cancel_one env s rid = s \/
  exists r, find rid (requests s) = Some r /\ (r_dep r + e_cancel env <= sim_time s)%Z /\
            requests (cancel_one env s rid) = PM.remove rid (requests s) /\
            log (cancel_one env s rid) = EvCancel rid (r_dep r) (sim_time s) :: log s /\
            vehicles (cancel_one env s rid) = vehicles s.
Proof. exact cancel_one_spec. Qed.
Theorem C03_ledger_over_histories : forall env ops s0, vkeys s0 -> log s0 = [] -> Forall op_ok ops ->
  let s := fold_left (step_op env) ops s0 in
  wf (init_of s0) (log s) /\ forall rid, find rid (requests s) <> None <-> status (init_of s0) (log s) rid = Waiting.
Proof. intros env ops s0 K L O. exact (proj2 (ledger_invariant env (init_of s0) ops s0 K (Inv_ledger_initial s0 L) O)). Qed.
Theorem C03_closed_once : forall init l2 e1 l1 rid, wf init (l2 ++ e1 :: l1) -> closes e1 rid ->
  (forall e, In e l2 -> ~ adds e rid) -> forall e, In e l2 -> ~ closes e rid.
Proof. exact closed_once. Qed.
Theorem C03_dropoffs_over_histories : forall env ops s0, vkeys s0 -> Inv_drop s0 -> Forall op_ok ops ->
  vkeys (fold_left (step_op env) ops s0) /\ Inv_drop (fold_left (step_op env) ops s0).
Proof. exact drop_invariant. Qed.
Theorem C03_dropped_once : forall l2 rid vid g t l1, wfd (l2 ++ EvDropoff rid vid g t :: l1) ->
  (forall e, In e l2 -> match e with EvPickup _ v _ _ _ => v <> vid | _ => True end) ->
  forall e, In e l2 -> match e with EvDropoff _ v _ _ => v <> vid | _ => True end.
Proof. exact dropped_once. Qed.
Theorem C03_dropoffs_initial_state : forall s, log s = [] ->
  (forall k v, find k (vehicles s) = Some v -> forall q d r, v_state v <> ServicingTrip q d r) -> Inv_drop s.
Proof. exact Inv_drop_initial. Qed.
Print Assumptions C03_ledger_over_histories. Print Assumptions C03_closed_once.
Print Assumptions C03_dropoffs_over_histories. Print Assumptions C03_dropped_once. Print Assumptions C03_dropoffs_initial_state.

Print Assumptions C03_no_divert. Print Assumptions C03_pickup_once.
Print Assumptions C03_pickup_needs_waiting. Print Assumptions C03_cancel_once.
