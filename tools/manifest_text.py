"""Texts for MANIFEST.json (level claimed per property).  Kept next to the registry so both stay current."""
NOTES = ('Technique family: machine-checked proof in Coq 8.16.1.  Every check regenerates coq/Gen from /repo, rebuilds the .vo files, '
         'audits Print Assumptions, runs the model/implementation correspondence and the implementation-side monitors, and applies the '
         'verdict logic of DESIGN.md §3.4.  KNOWN_FINDINGS.txt lists fixed and known findings.')
COMMON_NOTE = ('Trusted: Coq kernel; tools/py2v translator; hand-written step model (tied by differential correspondence only); harness; '
               'oracle hypotheses named in the evidence; floats modelled as exact rationals with 1e-9 relative tolerance.')
CLAIMED = {
 'C04': dict(
   text=('Proved for all inputs: the consume/idle/add_energy kernels of both powertrains (regenerated from bev.py, ice.py, tabular_powercurve.py, vehicle.py '
         'on every run) keep the level in [0, capacity], book exactly the amount removed/added, expend strictly positively for positive distance/time, '
         'never lower the level when charging and never add more than rate x duration for ANY step length and curve step (induction over the integrator loop). '
         'The step-level running balance over whole histories is checked by correspondence + monitors (not yet a theorem: labelled partial).'),
   note=COMMON_NOTE + ' Hypotheses train_ok/curve_ok (positive sorted tables) are checked on every generated mechatronics.',
   technique='Coq proof over translated kernels (Q arithmetic, induction on loop fuel) + differential correspondence of the step model'),
}
NOT_CLAIMED = {}
