(* Props/C13.v — property theorems only.  C13: routes are connected paths from origin to destination.
   Over ANY link table that is consistent with the node cells (tab_ok: true by construction in OSMRoadNetworkLinkHelper.build and
   re-checked by the harness on every graph it loads) and ANY search oracle that returns a node path of graph edges from its
   source to its target (networkx.astar_path), the assembled route is non-empty exactly when origin and destination differ,
   its first link starts at the origin position, its last link ends at the destination position, consecutive links join end to
   start (chain), and every link is a link of the table; on the straight-line network the route is the single link from origin
   to destination; a snapped position names a cell on the link it names.  The model of route assembly is tied to
   osm_roadnetwork(_ops).py by harness/eng_c13.py (vm_compute correspondence on Denver and generated graphs). *)
From Hive.Base Require Import Prelude.
From Hive.Model Require Import Types Route.
From Hive.Proofs Require Import Routing.

Theorem C13_street_route : forall tab cell, (forall u v l, tab (u, v) = Some l -> l_id l = (u, v) /\ l_start l = cell u /\ l_end l = cell v) ->
  forall astar, (forall a b, exists q, astar a b = a :: q /\ last q a = b /\ links_of_path tab (a :: q) <> None) ->
  forall (o d : Pos) sl dl, pos_eqb o d = false -> tab (p_link o) = Some sl -> tab (p_link d) = Some dl ->
  let r := osm_route tab astar o d in
  r <> [] /\ chain (p_geoid o) r (p_geoid d) /\ Forall (in_table tab) r.
Proof. exact osm_route_spec. Qed.
Theorem C13_empty_iff_same_position : forall tab cell, (forall u v l, tab (u, v) = Some l -> l_id l = (u, v) /\ l_start l = cell u /\ l_end l = cell v) ->
  forall astar, (forall a b, exists q, astar a b = a :: q /\ last q a = b /\ links_of_path tab (a :: q) <> None) ->
  forall (o d : Pos) sl dl, tab (p_link o) = Some sl -> tab (p_link d) = Some dl ->
  (osm_route tab astar o d = [] <-> pos_eqb o d = true).
Proof. exact osm_route_empty_iff. Qed.
Theorem C13_straight_line_route : forall gc speed o d, pos_eqb o d = false ->
  exists l, hav_route_model gc speed o d = [l] /\ l_start l = p_geoid o /\ l_end l = p_geoid d.
Proof. exact hav_route_spec. Qed.
Theorem C13_snapped_position_on_link : forall nearest line closest g p,
  (forall g cells, cells <> [] -> In (closest g cells) cells) -> (forall a b, line a b <> []) ->
  position_from_geoid nearest line closest g = Some p ->
  exists l, nearest g = Some l /\ p_link p = l_id l /\ In (p_geoid p) (line (l_start l) (l_end l)).
Proof. exact position_on_link. Qed.
Print Assumptions C13_street_route. Print Assumptions C13_empty_iff_same_position.
Print Assumptions C13_straight_line_route. Print Assumptions C13_snapped_position_on_link.
