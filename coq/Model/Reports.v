(* Model/Reports.v — hand model of the two report consumers C19 speaks about (tied to the source by harness/eng_reports.py):
   nrel/hive/reporting/vehicle_event_ops.py construct_station_load_events: fold the step's reports into one load per station id,
   then give every station of the simulation without a charge event a zero record;
   nrel/hive/reporting/handler/stats_handler.py StatsHandler.handle: per batch of reports, requests += number of add events,
   cancelled_requests += number of cancel events, vkt += the move events' distances (total_vkt of compile_stats is their sum). *)
From Hive.Base Require Import Prelude.
From Hive.Model Require Import Types KernelBase.
Local Open Scope Q_scope.

Definition qget (k : id) (m : pmap Q) : Q := match PM.find k m with Some x => x | None => 0 end.
Definition load_add (acc : pmap Q) (e : Event) : pmap Q :=
  match e with EvCharge _ sid _ _ en _ _ => PM.add sid (qget sid acc + en) acc | _ => acc end.
Definition load_fill (acc : pmap Q) (k : id) : pmap Q := match PM.find k acc with Some _ => acc | None => PM.add k 0 acc end.
Definition station_loads (reports : list Event) (sids : list id) : pmap Q :=
  fold_left load_fill sids (fold_left load_add reports (PM.empty Q)).

Record Stats := mkStats { st_requests : Z; st_cancelled : Z; st_vkt : Q }.
Definition stats0 : Stats := mkStats 0 0 0.
Definition is_add (e : Event) : bool := match e with EvAdd _ _ => true | _ => false end.
Definition is_cancel (e : Event) : bool := match e with EvCancel _ _ _ => true | _ => false end.
Definition count_ev (p : Event -> bool) (l : list Event) : Z := Z.of_nat (length (filter p l)).
Definition vkt_add (a : Q) (e : Event) : Q := match e with EvMove _ d _ => a + d | _ => a end.
Definition stats_handle (st : Stats) (reports : list Event) : Stats :=
  mkStats (st_requests st + count_ev is_add reports)%Z (st_cancelled st + count_ev is_cancel reports)%Z (fold_left vkt_add reports (st_vkt st)).
