"""eng_reports.py — correspondence of coq/Model/Reports.v (the model the C19 station-load and summary theorems are about) with the real
report consumers: vehicle_event_ops.construct_station_load_events and StatsHandler.handle are called on generated batches of Report
objects (charge events at stations of the simulation and at ids it does not know, zero and repeated energies, moves, adds,
cancels, other kinds) and the model is evaluated on the same batches inside Coq.  Compared: the set of station ids that get a load
record and each record's energy; the summary counters and distance after the whole sequence of batches.  Additionally the
implementation's output is checked directly against the property (one record per station, energy = sum of that batch's charge
events there; counters = numbers of add / cancel events)."""
import os, json, random, time
import engine  # noqa
import coqrun
from hw import qtxt, ztxt, lst
import h3
from nrel.hive.reporting.reporter import Report
from nrel.hive.reporting.report_type import ReportType
from nrel.hive.reporting.vehicle_event_ops import construct_station_load_events
from nrel.hive.reporting.handler.stats_handler import StatsHandler
from nrel.hive.runner.runner_payload import RunnerPayload
from nrel.hive.resources import mock_lobster as ml

HEADER = coqrun.HEADER.replace('Local Open Scope Q_scope.', 'From Hive.Model Require Import Reports.\nLocal Open Scope Q_scope.', 1)
ALL_STATIONS = [f's{i}' for i in range(6)]
VEHICLES = [f'v{i}' for i in range(4)]
SID = {s: i + 1 for i, s in enumerate(ALL_STATIONS)}
VID = {v: i + 11 for i, v in enumerate(VEHICLES)}

def gen_case(rng):
    """-> (station ids of the simulation, batches of abstract events)"""
    known = rng.sample(ALL_STATIONS, rng.randint(0, 4))
    batches = []
    for _ in range(rng.randint(1, 4)):
        b = []
        for _ in range(rng.randint(0, 9)):
            k = rng.random()
            if k < 0.45:
                sid = rng.choice(known) if known and rng.random() < 0.8 else rng.choice(ALL_STATIONS)
                en = rng.choice([0.0, 0.25, 1.5, rng.uniform(0, 12), rng.uniform(0, 1e-3)])
                b.append(('charge', rng.choice(VEHICLES), sid, en))
            elif k < 0.65:
                b.append(('move', rng.choice(VEHICLES), rng.choice([0.0, 0.4, rng.uniform(0, 3)]), rng.choice(['DispatchTrip', 'Repositioning', 'ServicingTrip'])))
            elif k < 0.8:
                b.append(('add', rng.randint(1, 50)))
            elif k < 0.92:
                b.append(('cancel', rng.randint(1, 50)))
            else:
                b.append(('pickup', rng.randint(1, 50), rng.choice(VEHICLES)))
        batches.append(b)
    return known, batches

def to_report(ev):
    if ev[0] == 'charge':
        return Report(ReportType.VEHICLE_CHARGE_EVENT, {'vehicle_id': ev[1], 'station_id': ev[2], 'energy': ev[3], 'energy_units': 'kilowatthour', 'price': 0.0, 'charger_id': 'DCFC'})
    if ev[0] == 'move':
        return Report(ReportType.VEHICLE_MOVE_EVENT, {'vehicle_id': ev[1], 'distance_km': ev[2], 'vehicle_state': ev[3]})
    if ev[0] == 'add':
        return Report(ReportType.ADD_REQUEST_EVENT, {'request_id': f'r{ev[1]}'})
    if ev[0] == 'cancel':
        return Report(ReportType.CANCEL_REQUEST_EVENT, {'request_id': f'r{ev[1]}'})
    return Report(ReportType.PICKUP_REQUEST_EVENT, {'request_id': f'r{ev[1]}', 'vehicle_id': ev[2]})

def to_coq(ev):
    if ev[0] == 'charge':
        return f'EvCharge {VID[ev[1]]} {SID[ev[2]]} 1 Electric ({qtxt(ev[3])}) 0 0%Z'
    if ev[0] == 'move':
        return f'EvMove {VID[ev[1]]} ({qtxt(ev[2])}) 0%Z'
    if ev[0] == 'add':
        return f'EvAdd {ev[1]} 0%Z'
    if ev[0] == 'cancel':
        return f'EvCancel {ev[1]} 0%Z 0%Z'
    return f'EvPickup {ev[1]} {VID[ev[2]]} 0%Z 0%Z 0'

def run_python(known, batches):
    base = h3.geo_to_h3(39.7539, -104.9740, 15)
    cells = sorted(h3.k_ring(base, 2))
    stations = tuple(ml.mock_station_from_geoid(s, cells[i], chargers={'DCFC': 1}) for i, s in enumerate(known))
    sim = ml.mock_sim(stations=stations)
    payload = RunnerPayload(sim, None, None)
    handler = StatsHandler()
    loads = []
    for b in batches:
        reports = tuple(to_report(e) for e in b)
        out = construct_station_load_events(reports, sim)
        recs = [(r.report['station_id'], float(r.report['energy'])) for r in out]
        loads.append(recs)
        handler.handle(list(reports), payload)
    return loads, (handler.stats.requests, handler.stats.cancelled_requests, float(sum(handler.stats.vkt.values())))

def direct_violations(known, batches, loads, summary):
    """the property itself, on the implementation's output"""
    v = []
    adds = sum(1 for b in batches for e in b if e[0] == 'add')
    cancels = sum(1 for b in batches for e in b if e[0] == 'cancel')
    if summary[0] != adds:
        v.append(('summary_requests_vs_add_events', {'summary': summary[0], 'add_events': adds}))
    if summary[1] != cancels:
        v.append(('summary_cancelled_vs_cancel_events', {'summary': summary[1], 'cancel_events': cancels}))
    for bi, (b, recs) in enumerate(zip(batches, loads)):
        ids = [r[0] for r in recs]
        if len(ids) != len(set(ids)):
            v.append(('station_load_reported_twice', {'batch': bi, 'records': ids}))
        want = {s: 0.0 for s in known}
        for e in b:
            if e[0] == 'charge':
                want[e[2]] = want.get(e[2], 0.0) + e[3]
        got = dict(recs)
        for s in sorted(set(want) | set(got)):
            if s not in got:
                v.append(('station_without_load_record', {'batch': bi, 'station': s}))
            elif s not in want or abs(got[s] - want[s]) > 1e-9 * max(1.0, abs(want[s])):
                v.append(('station_load_vs_charge_events', {'batch': bi, 'station': s, 'load': got[s], 'charges': want.get(s)}))
    return v

def coq_term(known, batches, loads, summary):
    sids = lst([str(SID[s]) for s in known])
    parts = []
    for b, recs in zip(batches, loads):
        exp = lst([f'TL [TP {SID[s]}; TQ ({qtxt(e)})]' for s, e in sorted(recs, key=lambda r: SID[r[0]])])
        evs = lst([f'({to_coq(e)})' for e in b])
        parts.append(f'tok_close (TL (map (fun kv => TL [TP (fst kv); TQ (snd kv)]) (sorted_elements (station_loads {evs} {sids})))) (TL {exp})')
    allb = lst([lst([f'({to_coq(e)})' for e in b]) for b in batches])
    parts.append(f'(let st := fold_left stats_handle {allb} stats0 in tok_close (TL [TZ (st_requests st); TZ (st_cancelled st); TQ (st_vkt st)]) '
                 f'(TL [TZ {ztxt(summary[0])}; TZ {ztxt(summary[1])}; TQ ({qtxt(summary[2])})]))')
    t = '0%Z'
    for i, p in reversed(list(enumerate(parts))):
        t = f'(if {p} then {t} else {i + 1}%Z)'
    return t

def run(seed, n):
    rng = random.Random(f'reports|{seed}')
    cases = []
    for _ in range(n):
        known, batches = gen_case(rng)
        loads, summary = run_python(known, batches)
        cases.append((known, batches, loads, summary))
    terms = [coq_term(*c) for c in cases]
    res, errs, _ = coqrun.eval_terms(terms, shard=50, jobs=12, header=HEADER)
    return cases, res, errs

def engine(res, spec, tier, seed, extended=False):
    t0 = time.time()
    n = 100 if tier == 'quick' else 1000
    if extended:
        n = 400
    cases, out, errs = run(seed, n)
    for path, err in errs:
        res.add_broken('correspondence', 'coq evaluation of report-consumer cases failed', {'shard': os.path.basename(path), 'error': err[-800:]})
    dist = {'batches': 0, 'events': 0, 'charge_events': 0, 'unknown_station_charges': 0}
    for idx, (c, r) in enumerate(zip(cases, out)):
        known, batches, loads, summary = c
        dist['batches'] += len(batches); dist['events'] += sum(len(b) for b in batches)
        dist['charge_events'] += sum(1 for b in batches for e in b if e[0] == 'charge')
        dist['unknown_station_charges'] += sum(1 for b in batches for e in b if e[0] == 'charge' and e[2] not in known)
        payload = {'engine': 'eng_reports', 'seed': seed, 'n': n, 'index': idx}
        for kind, d in direct_violations(known, batches, loads, summary):
            if not [f for f in res.found if f['kind'] == kind]:
                res.add_found(kind, d, dict(payload, kind=kind, detail=d))
        if r is None:
            continue
        res.cov['evaluations'] += 1
        if r != 0 and not [f for f in res.found if f['kind'] == 'report_consumer_differs_from_model']:
            d = {'which': 'summary' if r == len(batches) + 1 else f'station loads of batch {r - 1}', 'stations': known, 'batches': batches, 'python_loads': loads, 'python_summary': summary}
            res.add_found('report_consumer_differs_from_model', d, dict(payload, kind='report_consumer_differs_from_model', detail=d))
    res.notes['eng_reports'] = {'cases': len(cases), 'input_distribution': dist, 'wall_s': round(time.time() - t0, 1)}

def replayer(payload):
    if payload.get('engine') != 'eng_reports':
        return None
    cases, out, errs = run(payload['seed'], payload['n'])
    bad = False
    for idx, (c, r) in enumerate(zip(cases, out)):
        dv = direct_violations(*c)
        if dv or r not in (0, None):
            bad = True
            print('reproduced:', json.dumps({'case': idx, 'direct': dv[:2], 'model_disagrees_at': r, 'stations': c[0], 'batches': c[1], 'python_loads': c[2], 'python_summary': c[3]}, default=str)[:1500])
            break
    return bad
