(* Props/C20.v — property theorems only.  C20: human drivers follow their shift schedule.
   Proved: the generated time_in_range is start-inclusive / end-exclusive with wrap-around and empty when start = end; the
   time of day is periodic (multi-day runs); one driver update at a step starting at time t sets availability to
   time_in_range(shift)(t mod 86400), leaves the rest of the vehicle alone and files a schedule event exactly when
   availability flips.  Over whole steps and runs (C20_step_follows_schedule, C20_run_follows_schedule; instruction lists of ANY
   controller): after the driver updates of a step every human driver's availability is the schedule's verdict at the time the
   step started, and no other operation of the step (instructions, vehicle updates, admission, cancellation, prices, tick) changes
   a driver state (C20_only_driver_updates_change_drivers, from the macro frame theorem) — so during every step of every run a
   human-driven vehicle is available exactly when the step's start time lies in its shift.  The built-in dispatcher never assigns to an off-shift driver: its vehicle filter, regenerated from the source, rejects every
   vehicle whose driver is unavailable (C20_dispatcher_never_offers_off_shift_driver); that the solver's pairs come from the
   filtered lists is checked by the dispatcher engine (harness) on the real Dispatcher. *)
From Hive.Base Require Import Prelude.
From Hive.Model Require Import Types KernelBase SimOps States Step.
From Hive.Gen Require Import Kernels.
From Hive.Proofs Require Import Shift VehFrame Macro Clock ShiftInv Eligible.
Local Open Scope Z_scope.

Theorem C20_in_shift_meaning : forall a b x,
  time_in_range a b x = true <-> (a <= b /\ a <= x < b) \/ (b < a /\ (a <= x \/ x < b)).
Proof. exact time_in_range_spec. Qed.
Theorem C20_empty_shift : forall a x, time_in_range a a x = false.
Proof. exact time_in_range_empty. Qed.
Theorem C20_time_of_day : forall t k, 0 <= tod t < 86400 /\ tod (t + k * 86400) = tod t.
Proof. intros. split; [apply tod_range|apply tod_periodic]. Qed.
Theorem C20_driver_update : forall env rt s v sch a b s',
  find (v_id v) (vehicles s) = Some v -> driver_sched (v_driver v) = Some sch -> e_sched env sch = Some (a, b) ->
  driver_update env rt s v = Ok s' ->
  let inside := time_in_range a b (tod (sim_time s)) in
  let flip := negb (Bool.eqb (driver_available (v_driver v)) inside) in
  exists d', vehicles s' = (if flip then PM.add (v_id v) (v <| v_driver := d' |>) (vehicles s) else vehicles s) /\
             (flip = true -> driver_available d' = inside /\ driver_sched d' = Some sch) /\
             log s' = (if flip then EvSchedule (v_id v) inside (sim_time s) :: log s else log s) /\
             stations s' = stations s /\ bases s' = bases s /\ requests s' = requests s.
Proof. exact driver_update_spec. Qed.
Theorem C20_only_driver_updates_change_drivers : forall env s o, (forall rt, o <> OpDrivers rt) -> vkeys s -> op_ok o ->
  drivers_kept s (step_op env s o) /\ vkeys (step_op env s o).
Proof. exact other_ops_keep_drivers. Qed.
Theorem C20_step_follows_schedule : forall env, (forall g, e_fence env g = true) -> forall rt s prices rows is,
  vkeys s -> scheds_resolve env s -> Forall (fun r => r_disp r = None) rows -> NoDup (map instr_vid is) ->
  let s' := full_step env rt s prices rows is in
  shift_ok env s' (sim_time s) /\ vkeys s' /\ scheds_resolve env s' /\ sim_time s' = sim_time s + dt s.
Proof. exact full_step_shift. Qed.
Theorem C20_run_follows_schedule : forall env, (forall g, e_fence env g = true) -> forall pre rt prices rows is s,
  vkeys s -> scheds_resolve env s -> Forall input_ok (pre ++ [(rt, prices, rows, is)]) ->
  shift_ok env (run env (pre ++ [(rt, prices, rows, is)]) s) (sim_time (run env pre s)).
Proof. exact run_shift. Qed.
(* the built-in dispatcher's vehicle filter (closure regenerated from dispatcher.py) never offers an off-shift driver to the solver *)
Theorem C20_dispatcher_never_offers_off_shift_driver : forall env states mr br fleet v,
  driver_available (v_driver v) = false -> dispatcher_valid_vehicle env states mr br fleet v = false.
Proof. exact off_shift_driver_never_offered. Qed.
Print Assumptions C20_dispatcher_never_offers_off_shift_driver.

Print Assumptions C20_only_driver_updates_change_drivers. Print Assumptions C20_step_follows_schedule. Print Assumptions C20_run_follows_schedule.

Print Assumptions C20_in_shift_meaning. Print Assumptions C20_empty_shift.
Print Assumptions C20_time_of_day. Print Assumptions C20_driver_update.
