"""registry.py — per-property specification of what ./check runs (DESIGN §5)."""
MECH_KERNELS = [p + k for p in ('bev_', 'ice_') for k in ('valid_charger', 'range_remaining_km', 'fuel_source_soc', 'is_empty', 'is_full',
                                                             'consume_energy', 'idle', 'add_energy')]
Q, T = 'quick', 'thorough'

PROPS = {}

PROPS['C04'] = dict(
    props_file='Props/C04.v',
    kernels=MECH_KERNELS + ['powercurve_charge', 'veh_modify_energy', 'veh_tick_energy_expended', 'veh_tick_energy_gained', 'hours_to_seconds'],
    step_runs={Q: [('generic', 120, 30)], T: [('generic', 1500, 40), ('contention', 500, 40)]},
    known_keys={'energy_not_accounted': ['mechatronics'], 'idled_without_expending': ['mechatronics'], 'moved_without_expending': ['mechatronics'],
                'charged_more_than_plug_delivers': ['charger']},
    trusted_base=['oracle hypotheses train_ok / curve_ok (positive sorted consumption table, non-negative sorted charge curve, positive curve step): re-established for the mechatronics of each generated world by the harness'],
    assumptions=['one energy type per vehicle', 'floating point modelled as exact rationals (DESIGN §8)'],
)

PROPS['C08'] = dict(
    props_file='Props/C08.v',
    kernels=[],
    step_runs={Q: [('rawops', 60, 40), ('generic', 120, 30)], T: [('rawops', 600, 60), ('rawmix', 300, 40), ('generic', 1500, 40)]},
    known_keys={'location_index_mismatch': ['kind'], 'search_index_mismatch': ['kind']},
    rule='seeded histories of raw add/modify/remove/pop operations on all four entity kinds (re-adds of present ids, moves inside / across / back between search cells, missing ids) plus generic step histories; non-trivial = contains both an accepted and a refused operation',
    trusted_base=['h3.h3_to_parent is an arbitrary function `e_parent` in the theorem'],
    assumptions=['geofence constant True (both road networks at this commit)'],
)
