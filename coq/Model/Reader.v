(* Model/Reader.v — hand-written model of DictReaderStepper.read_until_stop_condition (util/iterators.py): rows are
   consumed while the stop condition holds for their key; the first row that fails it is kept aside (`history`) and is the
   first candidate of the next call.  (rest, history) is represented by the single list `rest` whose head is the history
   row.  Tied to the source by harness/eng_c11.py (window correspondence) and by the generated stop conditions. *)
From Hive.Base Require Import Prelude.
From Hive.Gen Require Import Kernels.

Section R.
  Context {A : Type}.
  Fixpoint read_until (stop : Z -> bool) (rows : list (Z * A)) : list (Z * A) * list (Z * A) :=
    match rows with
    | [] => ([], [])
    | (k, a) :: t => if stop k then let '(r, rest) := read_until stop t in ((k, a) :: r, rest) else ([], rows)
    end.
  (* one window per step time, threading the reader state *)
  Fixpoint windows (times : list Z) (rows : list (Z * A)) : list (list (Z * A)) :=
    match times with
    | [] => []
    | now :: ts => let '(r, rest) := read_until (requests_stop_condition now) rows in r :: windows ts rest
    end.
End R.
