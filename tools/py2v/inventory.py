#!/usr/bin/env python3
"""inventory.py — syntactic inventories regenerated from /repo on every run (DESIGN §5 C01, C16).

C01: every place where the simulation core enumerates a container whose iteration order depends on string hashes
     (immutables.Map, set / frozenset, h3.k_ring / h3_to_children results).  A site is (file, function, expression, consumer).
C16: every in-place mutation site (attribute / subscript assignment, augmented assignment to them, del, mutating method calls)
     with its receiver classified.
Output: coq/Gen/Inventory.v (two lists of string tuples) and coq/Gen/inventory.json."""
import ast, os, sys, json, re

ROOTS = ['nrel/hive/state', 'nrel/hive/model', 'nrel/hive/dispatcher', 'nrel/hive/util', 'nrel/hive/runner', 'nrel/hive/initialization',
         'nrel/hive/reporting/vehicle_event_ops.py', 'nrel/hive/reporting/driver_event_ops.py', 'nrel/hive/reporting/reporter.py',
         'nrel/hive/reporting/handler/stats_handler.py', 'nrel/hive/reporting/handler/summary_stats.py']
# attribute / variable names that hold hash-ordered containers in HIVE's records (immutables.Map / frozenset fields)
UNORDERED_NAMES = {'vehicles', 'stations', 'bases', 'requests', 'v_locations', 'r_locations', 's_locations', 'b_locations', 'v_search', 'r_search',
                   's_search', 'b_search', 'applied_instructions', 'memberships', 'fleet_ids', 'on_shift_access_chargers', 'state', 'energy',
                   'energy_gained', 'energy_expended', 'energy_dispensed', 'mechatronics', 'chargers', 'schedules', 'instruction_generators',
                   'links', 'this_update', 'charger_update', 'as_station_updates', 'i_stack', 'prices_update', 'station_ids_to_update'}
UNORDERED_CALLS = {'k_ring', 'h3_to_children', 'set', 'frozenset', 'hex_ring', 'union', 'difference', 'intersection', 'get_entities_at_cell'}
CONSUMERS = {'reduce', 'map', 'filter', 'min', 'max', 'any', 'all', 'sum', 'tuple', 'list', 'frozenset', 'set', 'next', 'len', 'dict', 'Map', 'enumerate', 'zip'}
MUTATORS = {'append', 'extend', 'insert', 'pop', 'remove', 'clear', 'update', 'add', 'discard', 'sort', 'reverse', 'setdefault', 'popitem', '__setitem__', '__setattr__', '__delattr__', '__delitem__', 'set_', 'finish'}

def src(node):
    return re.sub(r'\s+', ' ', ast.unparse(node))

def unordered(node):
    """is this expression syntactically a hash-ordered enumeration?"""
    if isinstance(node, ast.Call):
        f = node.func
        if isinstance(f, ast.Attribute):
            if f.attr in ('keys', 'values', 'items'):
                return base_unordered(f.value)
            if f.attr in UNORDERED_CALLS:
                return True
        if isinstance(f, ast.Name) and f.id in UNORDERED_CALLS:
            return True
        return False
    return base_unordered(node)

def base_unordered(node):
    if isinstance(node, ast.Attribute):
        return node.attr in UNORDERED_NAMES
    if isinstance(node, ast.Name):
        return node.id in UNORDERED_NAMES
    if isinstance(node, ast.Subscript):
        return base_unordered(node.value)
    if isinstance(node, ast.Call):
        return unordered(node)
    return False

class Scan(ast.NodeVisitor):
    def __init__(self, path):
        self.path, self.stack, self.iter_sites, self.mut_sites = path, [], [], []
        self.hidden_sites = []
        self.stmt_calls = set()
        self.locals = [set()]
    def fn(self):
        return '.'.join(self.stack) or '<module>'
    def visit_FunctionDef(self, node):
        self.stack.append(node.name)
        loc = set()
        for n in ast.walk(node):
            if isinstance(n, ast.Assign):
                for t in n.targets:
                    if isinstance(t, ast.Name) and isinstance(n.value, (ast.Dict, ast.List, ast.Set, ast.ListComp, ast.DictComp, ast.SetComp)):
                        loc.add(t.id)
                    if isinstance(t, ast.Name) and isinstance(n.value, ast.Call) and isinstance(n.value.func, ast.Name) and n.value.func.id in ('dict', 'list', 'set'):
                        loc.add(t.id)
                    if isinstance(t, ast.Name) and isinstance(n.value, ast.Call) and isinstance(n.value.func, ast.Attribute) and n.value.func.attr == 'mutate':
                        loc.add(t.id)
            if isinstance(n, ast.AnnAssign) and isinstance(n.target, ast.Name) and isinstance(n.value, (ast.Dict, ast.List, ast.Set)):
                loc.add(n.target.id)
            if isinstance(n, ast.withitem) and isinstance(n.optional_vars, ast.Name):
                loc.add(n.optional_vars.id)
        self.locals.append(loc)
        self.generic_visit(node)
        self.locals.pop()
        self.stack.pop()
    visit_AsyncFunctionDef = visit_FunctionDef
    def visit_ClassDef(self, node):
        self.stack.append(node.name); self.generic_visit(node); self.stack.pop()
    # ---- C01 ----
    def site(self, it, consumer, node):
        if unordered(it):
            self.iter_sites.append((self.path, self.fn(), src(it), consumer))
    def visit_For(self, node):
        self.site(node.iter, 'for', node); self.generic_visit(node)
    def visit_comprehension(self, node):
        self.site(node.iter, 'comprehension', node); self.generic_visit(node)
    def visit_Expr(self, node):
        if isinstance(node.value, ast.Call):
            self.stmt_calls.add(id(node.value))
        self.generic_visit(node)
    def visit_Call(self, node):
        name = node.func.id if isinstance(node.func, ast.Name) else (node.func.attr if isinstance(node.func, ast.Attribute) else None)
        # ---- C16, second sentence: reads of hidden process state (random streams, wall clock, os entropy) ----
        fsrc = src(node.func)
        if (fsrc.startswith(('random.', 'numpy.random.', 'np.random.', 'secrets.')) or fsrc in ('time.time', 'time.time_ns', 'time.monotonic', 'time.perf_counter',
                'datetime.now', 'datetime.utcnow', 'datetime.datetime.now', 'datetime.datetime.utcnow', 'os.urandom', 'datetime.today', 'date.today')
                or (isinstance(node.func, ast.Name) and node.func.id in ('shuffle', 'choice', 'choices', 'randint', 'uniform', 'sample', 'randrange', 'gauss'))):
            self.hidden_sites.append((self.path, self.fn(), fsrc))
        if name == 'sorted' and node.args:
            if unordered(node.args[0]):
                key = next((src(k.value) for k in node.keywords if k.arg == 'key'), 'identity')
                self.iter_sites.append((self.path, self.fn(), src(node.args[0]), 'sorted:' + key))
            for a in node.args[1:]:
                self.visit(a)
            for k in node.keywords:
                self.visit(k.value)
            # do not descend into the sorted argument again as an unsorted site
            if not unordered(node.args[0]):
                self.visit(node.args[0])
            return
        if name in CONSUMERS:
            for a in node.args:
                if unordered(a) and name not in ('len',):
                    self.iter_sites.append((self.path, self.fn(), src(a), name))
        if name in ('setattr', 'delattr') and isinstance(node.func, ast.Name) and node.args:
            self.mut_sites.append((self.path, self.fn(), src(node.func) + '(' + src(node.args[0]) + ', ...)', self.classify(node.args[0]), 'stmt-call'))
        # ---- C16: mutating method calls ----
        if isinstance(node.func, ast.Attribute) and node.func.attr in MUTATORS:
            recv = node.func.value
            # Map.update / Map.set / frozenset.union return new values; only statement-level calls can be in-place effects
            # a call whose value is used (x = m.update(...), return s.add(...)) is the functional API of immutables.Map /
            # frozenset / NamedTuple-style records; only a statement-level call can be an in-place effect
            self.mut_sites.append((self.path, self.fn(), src(node.func), self.classify(recv), 'stmt-call' if id(node) in self.stmt_calls else 'value-call'))
        self.generic_visit(node)
    # ---- C16 ----
    def classify(self, recv):
        root = recv
        while isinstance(root, (ast.Attribute, ast.Subscript)):
            root = root.value
        if isinstance(root, ast.Name):
            if root.id in ('self', 'cls'):
                return 'self'
            if any(root.id in l for l in self.locals):
                return 'fresh-local'
            return 'name:' + root.id
        if isinstance(root, ast.Call):
            return 'fresh-call'
        return 'other'
    def visit_Assign(self, node):
        for t in node.targets:
            for tt in (t.elts if isinstance(t, ast.Tuple) else [t]):
                if isinstance(tt, (ast.Attribute, ast.Subscript)):
                    cls = self.classify(tt.value)
                    kind = 'assign'
                    if isinstance(tt, ast.Attribute) and tt.attr == '__cause__':
                        kind = 'exception-cause'
                    elif cls == 'self' and self.stack and self.stack[-1] in ('__init__', '__post_init__'):
                        kind = 'init-self'
                    self.mut_sites.append((self.path, self.fn(), src(tt), cls, kind))
        self.generic_visit(node)
    def visit_AugAssign(self, node):
        if isinstance(node.target, (ast.Attribute, ast.Subscript)):
            self.mut_sites.append((self.path, self.fn(), src(node.target), self.classify(node.target.value), 'augassign'))
        elif isinstance(node.target, ast.Name) and (isinstance(node.op, (ast.BitOr, ast.BitAnd, ast.BitXor))
                                                    or (isinstance(node.op, ast.Add) and isinstance(node.value, (ast.List, ast.ListComp)))):
            # `s |= {...}` / `l += [...]` update a set / list IN PLACE when the name is bound to a mutable object that came from elsewhere
            self.mut_sites.append((self.path, self.fn(), src(node.target) + ' ' + type(node.op).__name__ + '=', self.classify(node.target), 'augassign-name'))
        self.generic_visit(node)
    def visit_Delete(self, node):
        for t in node.targets:
            if isinstance(t, (ast.Attribute, ast.Subscript)):
                self.mut_sites.append((self.path, self.fn(), src(t), self.classify(t.value), 'del'))
        self.generic_visit(node)

def scan(repo):
    iters, muts, frozen = [], [], []
    hidden = []
    files = []
    for r in ROOTS:
        p = os.path.join(repo, r)
        if os.path.isfile(p):
            files.append(p)
        else:
            for dp, dn, fn in sorted(os.walk(p)):
                dn.sort()
                files += [os.path.join(dp, f) for f in sorted(fn) if f.endswith('.py')]
    for f in files:
        rel = os.path.relpath(f, repo)
        if rel.endswith('mock_lobster.py'):
            continue
        tree = ast.parse(open(f).read())
        s = Scan(rel); s.visit(tree)
        iters += s.iter_sites; muts += s.mut_sites; hidden += s.hidden_sites
        # C16 frozen-type facts: dataclasses and NamedTuples
        for n in ast.walk(tree):
            if isinstance(n, ast.ClassDef):
                bases = [src(b) for b in n.bases]
                deco = [src(d) for d in n.decorator_list]
                kind = None
                if any('NamedTuple' in b for b in bases):
                    kind = 'NamedTuple'
                elif any(d.startswith('dataclass') for d in deco):
                    kind = 'dataclass-frozen' if any('frozen=True' in d for d in deco) else 'dataclass-MUTABLE'
                if kind:
                    frozen.append((rel, n.name, kind))
    return iters, muts, frozen, hidden

def coq_str(s):
    return '"' + s.replace('"', '""') + '"'

def main():
    repo = sys.argv[1] if len(sys.argv) > 1 else '/repo'
    outdir = sys.argv[2] if len(sys.argv) > 2 else os.path.join(os.path.dirname(os.path.abspath(__file__)), '../../coq/Gen')
    iters, muts, frozen, hidden = scan(repo)
    hidden = sorted(set(hidden))
    # line numbers are deliberately not part of a site: harmless edits elsewhere in the file must not move it
    iters = sorted(set(iters)); muts = sorted(set(muts)); frozen = sorted(set(frozen))
    os.makedirs(outdir, exist_ok=True)
    json.dump({'iter_sites': iters, 'mut_sites': muts, 'record_types': frozen, 'hidden_sites': hidden}, open(os.path.join(outdir, 'inventory.json'), 'w'), indent=1)
    L = ['(* GENERATED by tools/py2v/inventory.py from /repo working tree — do not edit *)', 'From Coq Require Import String List.', 'Import ListNotations.',
         'Local Open Scope string_scope.', '',
         'Definition iter_sites : list (string * string * string * string) := [']
    L.append(';\n'.join(f'  ({coq_str(a)}, {coq_str(b)}, {coq_str(c)}, {coq_str(d)})' for a, b, c, d in iters))
    L += ['].', '', 'Definition mut_sites : list (string * string * string * string * string) := [']
    L.append(';\n'.join(f'  ({coq_str(a)}, {coq_str(b)}, {coq_str(c)}, {coq_str(d)}, {coq_str(e)})' for a, b, c, d, e in muts))
    L += ['].', '', 'Definition record_types : list (string * string * string) := [']
    L.append(';\n'.join(f'  ({coq_str(a)}, {coq_str(b)}, {coq_str(c)})' for a, b, c in frozen))
    L += ['].', '', 'Definition hidden_sites : list (string * string * string) := [']
    L.append(';\n'.join(f'  ({coq_str(a)}, {coq_str(b)}, {coq_str(c)})' for a, b, c in hidden))
    L += ['].', '']
    text = '\n'.join(L)
    path = os.path.join(outdir, 'Inventory.v')
    old = open(path).read() if os.path.exists(path) else None
    if old != text:
        open(path, 'w').write(text)
    print(json.dumps({'iter_sites': len(iters), 'mut_sites': len(muts), 'record_types': len(frozen), 'changed': old != text}))

if __name__ == '__main__':
    main()
