"""eng_c12.py — C12 (and the dispatcher clauses of C10 / C17 / C20): the real Dispatcher.generate_instructions on generated
states.  Relational check (optimal matchings are not unique): validity against an independent restatement of the
eligibility rules, size = min, and optimality through the Coq-verified certificate checker `check_cert` (Proofs/Assign.v
cert_sound) with dual potentials from an independent Hungarian implementation; brute force cross-check for small instances."""
import random, json, itertools, time
from hw import *
import coqrun
from nrel.hive.dispatcher.instruction_generator.dispatcher import Dispatcher

STATES = ['idle', 'repositioning', 'reservebase', 'chargingbase', 'chargingstation', 'dispatchtrip', 'outofservice', 'dispatchbase']

def hungarian(cost):
    """rows n <= cols m.  Returns (assignment row->col, u, v) with u[i]+v[j] <= cost[i][j], equality on the matching,
    v <= 0 and v[j] = 0 on unmatched columns (e-maxx formulation, integer arithmetic)."""
    n, m = len(cost), len(cost[0])
    INF = 10 ** 18
    u = [0] * (n + 1); v = [0] * (m + 1); p = [0] * (m + 1); way = [0] * (m + 1)
    for i in range(1, n + 1):
        p[0] = i; j0 = 0
        minv = [INF] * (m + 1); used = [False] * (m + 1)
        while True:
            used[j0] = True
            i0 = p[j0]; delta = INF; j1 = 0
            for j in range(1, m + 1):
                if not used[j]:
                    cur = cost[i0 - 1][j - 1] - u[i0] - v[j]
                    if cur < minv[j]:
                        minv[j] = cur; way[j] = j0
                    if minv[j] < delta:
                        delta = minv[j]; j1 = j
            for j in range(m + 1):
                if used[j]:
                    u[p[j]] += delta; v[j] -= delta
                else:
                    minv[j] -= delta
            j0 = j1
            if p[j0] == 0:
                break
        while True:
            j1 = way[j0]; p[j0] = p[j1]; j0 = j1
            if j0 == 0:
                break
    sigma = [None] * n
    for j in range(1, m + 1):
        if p[j]:
            sigma[p[j] - 1] = j - 1
    return sigma, u[1:], v[1:]

def gen_state(rng):
    fleets = rng.choice([[], [], ['fa'], ['fa', 'fb']])
    n_v, n_r = rng.randint(0, 7), rng.randint(0, 7)
    base_lat, base_lon = 39.7539, -104.974
    def geo():
        if rng.random() < 0.3:
            return h3.geo_to_h3(base_lat, base_lon, 15)          # co-located entities, ties
        return h3.geo_to_h3(base_lat + rng.randint(-4, 4) * 0.0007, base_lon + rng.randint(-4, 4) * 0.0009, 15)
    cfg = ml.mock_config()
    vds = rng.choice([('idle', 'repositioning'), ('idle', 'repositioning', 'reservebase', 'chargingbase'), ('idle',)])
    cfg = cfg._replace(dispatcher=cfg.dispatcher._replace(valid_dispatch_states=vds, matching_range_km_threshold=rng.choice([20, 5, 100]),
                                                          base_charging_range_km_threshold=rng.choice([100, 50])))
    mechs = {'bev': ml.mock_bev(), 'ice': ml.mock_ice()}
    sched = lambda sim, vid: True
    env = ml.mock_env(config=cfg, mechatronics=mechs, fleet_ids=frozenset(fleets), schedules={'s1': sched})
    base = ml.mock_base_from_geoid('b0', geo(), station_id='s0', stall_count=10)
    station = ml.mock_station_from_geoid('s0', base.geoid, chargers={'DCFC': 10, 'LEVEL_2': 10}, env=env)
    vehicles = []
    for k in range(n_v):
        vid = f'v{k}'
        g = geo()
        st_name = rng.choice(STATES[:4] * 3 + STATES[4:])
        st = {'idle': lambda: Idle.build(vid), 'repositioning': lambda: Repositioning.build(vid, ()), 'reservebase': lambda: ReserveBase.build(vid, 'b0'),
              'chargingbase': lambda: ChargingBase.build(vid, 'b0', 'DCFC'), 'chargingstation': lambda: ChargingStation.build(vid, 's0', 'DCFC'),
              'dispatchtrip': lambda: DispatchTrip.build(vid, 'r0', ()), 'outofservice': lambda: OutOfService.build(vid),
              'dispatchbase': lambda: DispatchBase.build(vid, 'b0', ())}[st_name]()
        driver = None
        if rng.random() < 0.35:
            attr = HumanDriverAttributes(vid, 's1', 'b0', False)
            driver = HumanAvailable(attr) if rng.random() < 0.5 else HumanUnavailable(attr)
        mem = Membership() if (not fleets or rng.random() < 0.2) else Membership.from_tuple(tuple(rng.sample(fleets, rng.randint(1, len(fleets)))))
        vehicles.append(ml.mock_vehicle_from_geoid(vid, g, mechatronics=mechs[rng.choice(['bev', 'bev', 'ice'])], vehicle_state=st,
                                                   soc=rng.choice([0.02, 0.1, 0.3, 0.6, 1.0]), driver_state=driver, membership=mem))
    requests = []
    for k in range(n_r):
        r = ml.mock_request_from_geoids(f'r{k}', geo(), geo(), value=rng.choice([0, 3, 3, 7.5]),
                                        fleet_id=(rng.choice(fleets) if fleets and rng.random() < 0.85 else None))
        if vehicles and rng.random() < 0.2:
            r = r.assign_dispatched_vehicle(rng.choice(vehicles).id, SimTime.build(0))
        requests.append(r)
    sim = ml.mock_sim(vehicles=tuple(vehicles), stations=(station,), bases=(base,))
    for r in requests:
        sim = sso.add_request_safe(sim, r).unwrap()
    return sim, env, fleets

def eligible(sim, env, fleet):
    """independent restatement of the eligibility rules of the property"""
    cfgd = env.config.dispatcher
    vs = []
    for v in sorted(sim.vehicles.values(), key=lambda v: v.id):
        name = type(v.vehicle_state).__name__.lower()
        if name not in cfgd.valid_dispatch_states:
            continue
        if isinstance(v.driver_state, HumanUnavailable):
            continue
        if fleet is not None and not (len(v.membership.memberships) == 0 or fleet in v.membership.memberships):
            continue
        m = env.mechatronics[v.mechatronics_id]
        rng_km = m.range_remaining_km(v)
        if name == 'chargingbase' and rng_km < cfgd.base_charging_range_km_threshold:
            continue
        if not rng_km > cfgd.matching_range_km_threshold:
            continue
        vs.append(v)
    rs = []
    for r in sorted(sim.requests.values(), key=lambda r: (-r.value, r.id)):
        if r.dispatched_vehicle:
            continue
        if fleet is not None and not (len(r.membership.memberships) == 0 or fleet in r.membership.memberships):
            continue
        rs.append(r)
    return vs, rs

def coq_cert_term(M, sigma, u, w):
    n, m = len(M), len(M[0])
    rows = lst([lst([ztxt(x) for x in row]) for row in M])
    return (f'(if check_cert (fun i j => nth j (nth i {rows} []) 0%Z) {n} {m} {lst([str(x) + "%nat" for x in sigma])} '
            f'{lst([ztxt(x) for x in u])} {lst([ztxt(x) for x in w])} then 1%Z else 0%Z)')

def check_state(sim, env, fleets):
    """returns (violations, certificate terms)"""
    viol, certs = [], []
    disp = Dispatcher(env.config.dispatcher)
    _, all_instr = disp.generate_instructions(sim, env)
    per_fleet_total = []
    # C17, third sentence: one run of the built-in dispatcher (all fleets) sends at most one vehicle to any request
    rq = [i.request_id for i in all_instr]
    twice = sorted(set(r for r in rq if rq.count(r) > 1))
    if twice:
        viol.append(('request_dispatched_to_two_vehicles_in_one_run', {'requests': twice, 'fleets': sorted(fleets),
                                                                       'pairs': [(i.vehicle_id, i.request_id) for i in all_instr],
                                                                       'request_fleets': {r: sorted(sim.requests[r].membership.memberships) for r in twice}}))
    sim_all = sim
    for fleet in (sorted(fleets) if fleets else [None]):
        env_f = env._replace(fleet_ids=frozenset([fleet])) if fleet is not None else env
        # fleets are solved one after the other; a request an earlier fleet's assignment took is no longer open to the next
        sim = sim_all
        for (v0, r0) in per_fleet_total:
            if not sim.requests[r0].dispatched_vehicle:
                sim = sso.modify_request_safe(sim, sim.requests[r0].assign_dispatched_vehicle(v0, sim.sim_time)).unwrap()
        _, instrs = disp.generate_instructions(sim, env_f)
        pairs = [(i.vehicle_id, i.request_id) for i in instrs]
        per_fleet_total += pairs
        vs, rs = eligible(sim, env, fleet)
        vids, rids = [v.id for v in vs], [r.id for r in rs]
        d = {'fleet': fleet, 'pairs': pairs, 'eligible_vehicles': vids, 'eligible_requests': rids}
        for (v, r) in pairs:
            if v not in vids:
                veh = sim.vehicles[v]
                kind = 'off_shift_driver_dispatched' if isinstance(veh.driver_state, HumanUnavailable) else 'ineligible_vehicle_dispatched'
                viol.append((kind, dict(d, vehicle=v, activity=type(veh.vehicle_state).__name__)))
            if r not in rids:
                kind = 'already_assigned_request_dispatched' if sim.requests[r].dispatched_vehicle else 'ineligible_request_dispatched'
                viol.append((kind, dict(d, request=r)))
        if len(set(p[0] for p in pairs)) != len(pairs) or len(set(p[1] for p in pairs)) != len(pairs):
            viol.append(('pairs_not_distinct', d))
        if len(pairs) != min(len(vids), len(rids)):
            viol.append(('wrong_number_of_pairs', dict(d, expected=min(len(vids), len(rids)))))
        if any(k for k, _ in viol):
            continue
        if not pairs:
            continue
        M = [[h3.h3_distance(v.geoid, r.geoid) for r in rs] for v in vs]
        if len(vs) <= len(rs):
            sigma = [None] * len(vs)
            for (v, r) in pairs:
                sigma[vids.index(v)] = rids.index(r)
            Mx = M
        else:
            Mx = [[M[i][j] for i in range(len(vs))] for j in range(len(rs))]
            sigma = [None] * len(rs)
            for (v, r) in pairs:
                sigma[rids.index(r)] = vids.index(v)
        opt_sigma, u, w = hungarian(Mx)
        cost_h = sum(Mx[i][sigma[i]] for i in range(len(sigma)))
        cost_o = sum(Mx[i][opt_sigma[i]] for i in range(len(opt_sigma)))
        if cost_h != cost_o:
            viol.append(('matching_not_minimum_cost', dict(d, cost=cost_h, optimum=cost_o)))
        else:
            certs.append((coq_cert_term(Mx, sigma, u, w), d))
        if len(Mx) <= 5 and len(Mx[0]) <= 6:
            best = min(sum(Mx[i][p[i]] for i in range(len(Mx))) for p in itertools.permutations(range(len(Mx[0])), len(Mx)))
            if best != cost_o:
                viol.append(('harness_hungarian_disagrees_with_brute_force', dict(d, hungarian=cost_o, brute=best)))
    if sorted(per_fleet_total) != sorted((i.vehicle_id, i.request_id) for i in all_instr):
        viol.append(('multi_fleet_run_differs_from_per_fleet_runs', {'all': [(i.vehicle_id, i.request_id) for i in all_instr], 'per_fleet': per_fleet_total}))
    return viol, certs

KINDS = {'C12': None, 'C10': ['ineligible_vehicle_dispatched', 'ineligible_request_dispatched'], 'C17': ['already_assigned_request_dispatched', 'request_dispatched_to_two_vehicles_in_one_run'],
         'C20': ['off_shift_driver_dispatched']}

def engine(res, spec, tier, seed, extended=False):
    n = 300 if tier == 'quick' else 3000
    if extended:
        n = 1500
    t0 = time.time()
    want = KINDS.get(res.prop)
    certs, seen = [], set()
    sizes = {}
    for i in range(n):
        rng = random.Random(seed * 104729 + i)
        sim, env, fleets = gen_state(rng)
        viol, cs = check_state(sim, env, fleets)
        res.cov['evaluations'] += 1
        if len(sim.vehicles) >= 2 and len(sim.requests) >= 2:
            res.cov['distinct_nontrivial'] += 1
        certs += [(i, t, d) for t, d in cs]
        for t, d in cs:
            k = f"{len(d['eligible_vehicles'])}x{len(d['eligible_requests'])}"
            sizes[k] = sizes.get(k, 0) + 1
        if i < 2:
            res.cov['samples'].append({'engine': 'eng_c12', 'case': i, 'vehicles': {v.id: type(v.vehicle_state).__name__ for v in sim.vehicles.values()},
                                       'requests': sorted(sim.requests.keys()), 'fleets': fleets})
        for kind, d in viol:
            if want is not None and kind not in want:
                continue
            if kind not in seen:
                seen.add(kind)
                res.add_found(kind, d, {'engine': 'eng_c12', 'seed': seed, 'case': i, 'kind': kind, 'detail': d})
    if certs and not extended and res.prop == 'C12':
        hdr = 'From Hive.Base Require Import Prelude.\nFrom Hive.Model Require Import Dispatch.\n'
        terms = [t for _, t, _ in certs]
        vals, errs, _ = coqrun.eval_terms(terms, shard=60, jobs=12, header=hdr)
        for e in errs:
            res.add_broken('correspondence', 'certificate evaluation failed in Coq', e[1][-600:])
        rejected = [certs[k] for k, v in enumerate(vals) if v == 0]
        for (ci, t, d) in rejected[:1]:
            res.add_found('certificate_rejected', d, {'engine': 'eng_c12', 'seed': seed, 'case': ci, 'kind': 'certificate_rejected', 'detail': d})
        res.notes['eng_c12_certificates'] = {'checked_by_coq': len([v for v in vals if v is not None]), 'accepted': len([v for v in vals if v == 1]), 'instance_sizes': sizes}
    res.notes.setdefault('eng_c12', {})['wall_s'] = round(time.time() - t0, 1)

def replayer(payload):
    if payload.get('engine') != 'eng_c12':
        return None
    rng = random.Random(payload['seed'] * 104729 + payload['case'])
    sim, env, fleets = gen_state(rng)
    viol, _ = check_state(sim, env, fleets)
    hits = [v for v in viol if v[0] == payload['kind']]
    for h in hits[:2]:
        print('reproduced:', json.dumps(h, default=str)[:800])
    return bool(hits)
