(* Proofs/Reach.v — every function of the step model (States.v, Step.v) changes the simulation state only through
   the primitive writes of SimOps.v (modify_* / add_request / remove_request) and ghost updates (event log,
   applied_instructions, clock).  This "frame" theorem is proved once and reused by the invariants. *)
From Hive.Base Require Import Prelude.
From Hive.Model Require Import Types KernelBase SimOps States Step.
From Hive.Gen Require Import Kernels.

Section Reach.
Variable env : Env.

(* everything but log / applied / sim_time is untouched *)
Definition same_entities (s s' : Sim) : Prop :=
  vehicles s' = vehicles s /\ stations s' = stations s /\ bases s' = bases s /\ requests s' = requests s /\
  v_loc s' = v_loc s /\ r_loc s' = r_loc s /\ s_loc s' = s_loc s /\ b_loc s' = b_loc s /\
  v_search s' = v_search s /\ r_search s' = r_search s /\ s_search s' = s_search s /\ b_search s' = b_search s /\
  dt s' = dt s /\ sim_time s' = sim_time s.

Inductive Prim (A : Request -> Prop) (T : Prop) : Sim -> Sim -> Prop :=
| P_modv s v s' : modify_vehicle env s v = Ok s' -> Prim A T s s'
| P_mods s x s' : modify_station env s x = Ok s' -> Prim A T s s'
| P_modb s x s' : modify_base env s x = Ok s' -> Prim A T s s'
| P_modr s x s' : modify_request env s x = Ok s' -> Prim A T s s'
| P_remr s k s' : remove_request env s k = Ok s' -> Prim A T s s'
| P_addr s r s' : A r -> add_request env s r = Ok s' -> Prim A T s s'
| P_ghost s s' : same_entities s s' -> Prim A T s s'
| P_tick s : T -> Prim A T s (sim_tick s).

Inductive Reach (A : Request -> Prop) (T : Prop) : Sim -> Sim -> Prop :=
| R_refl s : Reach A T s s
| R_step s s' s'' : Prim A T s s' -> Reach A T s' s'' -> Reach A T s s''.

Lemma Reach_trans A T s1 s2 s3 : Reach A T s1 s2 -> Reach A T s2 s3 -> Reach A T s1 s3.
Proof. induction 1; intros; [assumption|]. econstructor; eauto. Qed.
Lemma Reach_one A T s s' : Prim A T s s' -> Reach A T s s'.
Proof. intro. econstructor; [eassumption|constructor]. Qed.
Lemma Reach_mono (A B : Request -> Prop) (T U : Prop) s s' : (forall r, A r -> B r) -> (T -> U) -> Reach A T s s' -> Reach B U s s'.
Proof.
  intros I J. induction 1; [constructor|]. econstructor; [|eassumption].
  destruct H; [eapply P_modv|eapply P_mods|eapply P_modb|eapply P_modr|eapply P_remr|eapply P_addr|eapply P_ghost|eapply P_tick]; eauto.
Qed.

Lemma same_entities_refl s : same_entities s s.
Proof. unfold same_entities; repeat split. Qed.
Lemma ghost_emit A T s e : Reach A T s (emit s e).
Proof. apply Reach_one, P_ghost. unfold same_entities, emit; cbn; repeat split. Qed.

Definition NoAdd : Request -> Prop := fun _ => False.

Ltac r_modv := eapply R_step; [eapply P_modv; eassumption|].
Ltac r_mods := eapply R_step; [eapply P_mods; eassumption|].
Ltac r_modb := eapply R_step; [eapply P_modb; eassumption|].
Ltac r_modr := eapply R_step; [eapply P_modr; eassumption|].
Ltac inv H := inversion H; subst; clear H.

(* destruct the scrutinee of the outermost match / if in hypothesis H *)
Ltac dmatch H :=
  match type of H with
  | context [match ?x with _ => _ end] =>
      lazymatch x with
      | context [match _ with _ => _ end] => fail
      | _ => let E := fresh "E" in destruct x eqn:E; try discriminate
      end
  end.

Lemma apply_new_vehicle_state_reach A T s vid st s' : apply_new_vehicle_state env s vid st = Ok s' -> Reach A T s s'.
Proof. unfold apply_new_vehicle_state. intro H. dmatch H. apply Reach_one. eapply P_modv; eauto. Qed.

Lemma rbind_ok {X Y} (r : res X) (f : X -> res Y) y : rbind r f = Ok y -> exists x, r = Ok x /\ f x = Ok y.
Proof. destruct r; cbn; try discriminate. eauto. Qed.

Lemma pick_up_trip_reach A T s vid rid s' : pick_up_trip env s vid rid = Ok s' -> Reach A T s s'.
Proof.
  unfold pick_up_trip, rbind. intro H. repeat dmatch H.
  r_modv. eapply Reach_trans; [apply ghost_emit|]. apply Reach_one. eapply P_remr; eauto.
Qed.
Lemma drop_off_trip_reach A T s vid r s' : drop_off_trip s vid r = Ok s' -> Reach A T s s'.
Proof. unfold drop_off_trip. intro H. repeat dmatch H. inv H. apply ghost_emit. Qed.

Lemma enter_charging_station_reach A T vid sid cid s s' : enter_charging_station env vid sid cid s = Ok s' -> Reach A T s s'.
Proof.
  unfold enter_charging_station, rbind. intro H. repeat dmatch H.
  r_mods. eapply apply_new_vehicle_state_reach; eauto.
Qed.
Lemma enter_charging_base_reach A T vid bid cid s s' : enter_charging_base env vid bid cid s = Ok s' -> Reach A T s s'.
Proof.
  unfold enter_charging_base, rbind. intro H. repeat dmatch H.
  r_modb. r_mods. eapply apply_new_vehicle_state_reach; eauto.
Qed.
Lemma enter_charge_queueing_reach A T vid sid cid t s s' : enter_charge_queueing env vid sid cid t s = Ok s' -> Reach A T s s'.
Proof.
  unfold enter_charge_queueing, rbind. intro H. repeat dmatch H.
  r_mods. eapply apply_new_vehicle_state_reach; eauto.
Qed.
Lemma enter_reserve_base_reach A T vid bid s s' : enter_reserve_base env vid bid s = Ok s' -> Reach A T s s'.
Proof.
  unfold enter_reserve_base, rbind. intro H. repeat dmatch H.
  r_modb. eapply apply_new_vehicle_state_reach; eauto.
Qed.
Lemma enter_dispatch_station_reach A T vid sid cid r s s' : enter_dispatch_station env vid sid cid r s = Ok s' -> Reach A T s s'.
Proof.
  unfold enter_dispatch_station. intro H. repeat dmatch H.
  - eapply enter_charging_station_reach; eauto.
  - eapply apply_new_vehicle_state_reach; eauto.
Qed.
Lemma enter_dispatch_base_reach A T vid bid r s s' : enter_dispatch_base env vid bid r s = Ok s' -> Reach A T s s'.
Proof. unfold enter_dispatch_base. intro H. repeat dmatch H. eapply apply_new_vehicle_state_reach; eauto. Qed.
Lemma enter_dispatch_trip_reach A T vid rid r s s' : enter_dispatch_trip env vid rid r s = Ok s' -> Reach A T s s'.
Proof. unfold enter_dispatch_trip. intro H. repeat dmatch H. r_modr. eapply apply_new_vehicle_state_reach; eauto. Qed.
Lemma enter_servicing_trip_reach A T vid q d r s s' : enter_servicing_trip env vid q d r s = Ok s' -> Reach A T s s'.
Proof.
  unfold enter_servicing_trip, rbind. intro H. repeat dmatch H.
  eapply Reach_trans; [eapply pick_up_trip_reach; eauto|]. eapply apply_new_vehicle_state_reach; eauto.
Qed.
Lemma enter_repositioning_reach A T vid r s s' : enter_repositioning env vid r s = Ok s' -> Reach A T s s'.
Proof. unfold enter_repositioning. intro H. repeat dmatch H. eapply apply_new_vehicle_state_reach; eauto. Qed.

Lemma vs_enter_reach A T vs s s' : vs_enter env vs s = Ok s' -> Reach A T s s'.
Proof.
  destruct vs as [vid st]. unfold vs_enter. destruct st; intro H;
    eauto using apply_new_vehicle_state_reach, enter_repositioning_reach, enter_dispatch_trip_reach, enter_servicing_trip_reach,
      enter_dispatch_station_reach, enter_charging_station_reach, enter_charge_queueing_reach, enter_dispatch_base_reach,
      enter_reserve_base_reach, enter_charging_base_reach.
Qed.

Lemma vs_exit_reach A T vs nx s s' : vs_exit env vs nx s = Ok s' -> Reach A T s s'.
Proof.
  destruct vs as [vid st]. unfold vs_exit. destruct st; intro H; try (inv H; constructor).
  - unfold exit_dispatch_trip in H. repeat dmatch H; [|inv H; constructor]. apply Reach_one. eapply P_modr; eauto.
  - repeat dmatch H. inv H. constructor.
  - unfold exit_charging_station in H. repeat dmatch H. apply Reach_one. eapply P_mods; eauto.
  - unfold exit_charge_queueing in H. repeat dmatch H. inv H. apply Reach_one. eapply P_mods; eauto.
  - unfold exit_reserve_base in H. repeat dmatch H. apply Reach_one. eapply P_modb; eauto.
  - unfold exit_charging_base in H. repeat dmatch H. r_modb. apply Reach_one. eapply P_mods; eauto.
Qed.

Lemma transition_reach A T s p n s' : transition env s p n = Ok s' -> Reach A T s s'.
Proof.
  unfold transition, transition_previous_to_next. intro H. repeat dmatch H. inv H.
  eapply Reach_trans; [eapply vs_exit_reach|eapply vs_enter_reach]; eauto.
Qed.

Lemma charge_reach A T s vid sid cid s' : charge env s vid sid cid = Ok s' -> Reach A T s s'.
Proof.
  unfold charge. intro H. repeat dmatch H.
  all: r_modv; eapply Reach_trans; [apply ghost_emit|]; apply Reach_one; eapply P_mods; eauto.
Qed.
Lemma move_reach A T s vid s' : move env s vid = Ok s' -> Reach A T s s'.
Proof.
  unfold move. intro H. repeat dmatch H.
  - inv H. apply Reach_one. eapply P_modv; eauto.
  - unfold go_out_of_service_on_empty in H. rewrite E in H.
    destruct (vs_exit env (vid, v_state v) (vid, OutOfService) s) eqn:X.
    + eapply Reach_trans; [eapply vs_exit_reach; eauto|]. eapply apply_new_vehicle_state_reach; eauto.
    + eapply apply_new_vehicle_state_reach; eauto.
    + eapply apply_new_vehicle_state_reach; eauto.
  - inv H. eapply Reach_trans; [apply ghost_emit|]. apply Reach_one. eapply P_modv; eauto.
Qed.
Lemma perform_update_reach A T vid st s s' : perform_update env vid st s = Ok s' -> Reach A T s s'.
Proof.
  destruct st; cbn [perform_update]; intro H.
  - repeat dmatch H. apply Reach_one. eapply P_modv; eauto.
  - eapply move_reach; eauto.
  - eapply move_reach; eauto.
  - destruct (move env s vid) as [a| |] eqn:M; try discriminate.
    eapply Reach_trans; [eapply move_reach; eauto|].
    repeat dmatch H; try (inv H; constructor). eapply drop_off_trip_reach; eauto.
  - eapply move_reach; eauto.
  - unfold charge_unless_full in H. repeat dmatch H; try (inv H; constructor); eapply charge_reach; eauto.
  - repeat dmatch H. apply Reach_one. eapply P_modv; eauto.
  - eapply move_reach; eauto.
  - inv H. constructor.
  - repeat dmatch H. eapply charge_reach; eauto.
  - inv H. constructor.
Qed.
Lemma vs_update_reach A T vid st s s' : vs_update env vid st s = Ok s' -> Reach A T s s'.
Proof.
  unfold vs_update. intro H. repeat dmatch H.
  - eapply Reach_trans; [eapply transition_reach; eauto|eapply perform_update_reach; eauto].
  - eapply perform_update_reach; eauto.
Qed.
Lemma step_vehicle_reach A T s vs : Reach A T s (step_vehicle env s vs).
Proof. unfold step_vehicle. destruct (vs_update env (fst vs) (snd vs) s) eqn:E; try constructor. eapply vs_update_reach; eauto. Qed.

Lemma fold_reach {X} A T (f : Sim -> X -> Sim) (l : list X) : (forall s x, Reach A T s (f s x)) -> forall s, Reach A T s (fold_left f l s).
Proof. intro Hf. induction l as [|x l IH]; intro s; cbn; [constructor|]. eapply Reach_trans; [apply Hf|apply IH]. Qed.

Lemma perform_vehicle_state_updates_reach A T s : Reach A T s (perform_vehicle_state_updates env s).
Proof. unfold perform_vehicle_state_updates. apply fold_reach. intros. apply step_vehicle_reach. Qed.

Lemma apply_instructions_reach A T s is : Reach A T s (apply_instructions env s is).
Proof.
  unfold apply_instructions. apply fold_reach. intros s0 [i r]. unfold apply_phase2.
  destruct (transition env s0 (fst r) (snd r)) eqn:E; try constructor.
  eapply Reach_trans; [eapply transition_reach; eauto|].
  apply Reach_one, P_ghost. unfold same_entities; cbn; repeat split.
Qed.

Lemma cancel_requests_reach A T s : Reach A T s (cancel_requests env s).
Proof.
  unfold cancel_requests. apply fold_reach. intros s0 rid. unfold cancel_one.
  destruct (find rid (requests s0)); [|constructor]. destruct (Z.ltb _ _); [constructor|].
  destruct (remove_request env s0 rid) eqn:E; try constructor.
  eapply R_step; [eapply P_remr; eauto|]. apply ghost_emit.
Qed.

Lemma admit_requests_reach (A : Request -> Prop) T s rows : (forall r, In r rows -> A r) -> Reach A T s (admit_requests env s rows).
Proof.
  unfold admit_requests. revert s. induction rows as [|r rows IH]; intros s HA; cbn [fold_left]; [constructor|].
  eapply Reach_trans; [|apply IH; intros; apply HA; right; assumption].
  unfold admit_request. repeat (match goal with |- context [if ?c then _ else _] => destruct c end; try constructor).
  destruct (add_request env s r) eqn:E; try constructor.
  eapply R_step; [eapply P_addr; [apply HA; left; reflexivity|eauto]|]. apply ghost_emit.
Qed.

Lemma prices_reach A T s ups : Reach A T s (fold_left (fun acc u => update_station_prices env acc (fst u) (snd u)) ups s).
Proof.
  apply fold_reach. intros s0 u. unfold update_station_prices. destruct (find (fst u) (stations s0)); [|constructor].
  destruct (modify_station env s0 _) eqn:E; try constructor. apply Reach_one. eapply P_mods; eauto.
Qed.

Lemma driver_update_reach A T rt s v s' : driver_update env rt s v = Ok s' -> Reach A T s s'.
Proof.
  unfold driver_update, apply_new_driver_state. intro H. repeat dmatch H; try (inv H; constructor).
  - cbn in E2. eapply Reach_trans; [apply ghost_emit|]. apply Reach_one. eapply P_modv; eauto.
  - cbn in E2. eapply Reach_trans; [apply ghost_emit|]. apply Reach_one. eapply P_modv; eauto.
Qed.
Lemma perform_driver_state_updates_reach A T rt s : Reach A T s (perform_driver_state_updates env rt s).
Proof.
  unfold perform_driver_state_updates.
  (* on error the fold resumes from the initial state: generalise over the restart point *)
  assert (G : forall l acc, Reach A T s acc -> Reach A T s (fold_left (fun acc v => match driver_update env rt acc v with Ok s' => s' | _ => s end) l acc)).
  { induction l as [|v l IH]; intros acc Hacc; cbn [fold_left]; [exact Hacc|]. apply IH.
    destruct (driver_update env rt acc v) eqn:E; try constructor. eapply Reach_trans; [exact Hacc|]. eapply driver_update_reach; eauto. }
  apply G. constructor.
Qed.

Definition op_admits (o : Op) (r : Request) : Prop :=
  match o with OpAdmit rows => In r rows | _ => False end.

Theorem step_op_reach s o : Reach (op_admits o) (o = OpTick) s (step_op env s o).
Proof.
  destruct o; cbn [step_op].
  - apply apply_instructions_reach.
  - apply perform_vehicle_state_updates_reach.
  - apply cancel_requests_reach.
  - apply admit_requests_reach. auto.
  - apply prices_reach.
  - apply perform_driver_state_updates_reach.
  - apply Reach_one, P_tick. reflexivity.
  - apply Reach_one, P_ghost. unfold same_entities; cbn; repeat split.
Qed.

End Reach.
