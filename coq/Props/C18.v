(* Props/C18.v — property theorems only.  C18: charging queues are served first-come first-served.
   Proved on the step model: perform_vehicle_state_updates processes every vehicle of the state, the non-queued ones first,
   then the queued ones in ascending (enqueue_time, id) order — a total, transitive order whose key is injective on ids — so of
   two vehicles waiting for the same plug type the one that joined strictly earlier is always offered a freed plug first.
   C18_offered_in_queue_order (from any state satisfying the C02 counts invariant): while the queued vehicles are processed
   no plug count ever grows (a queued vehicle's update leaves the stations alone or takes one plug), so if a vehicle finds a plug of
   its type free at its turn, EVERY vehicle processed earlier in that queue found a plug of that type free at its own, earlier
   turn; and (C18_offered_and_updated_leaves_queue) a vehicle that is offered the plug and whose update goes through has left the
   queue and is charging.  Hence a vehicle never leaves the queue to charge while an earlier one is left waiting — unless the
   earlier vehicle's OWN update was refused although the plug was free (it cannot use that plug type, lost access, ...).
   That exception is now stated and discharged: C18_offered_plug_is_taken — in any state satisfying the C02 counts, C07/C10 places
   invariants (both proved over every history), a queued vehicle whose powertrain is known and accepts the plug type it queues
   for (can_use) and which finds that plug free at its turn CANNOT be refused: its update succeeds (exit the queue, check the plug
   out, first charging step or "already full"), and so by the previous theorem it is charging afterwards.  What remains outside
   the theorem: a vehicle that waits for a plug type its powertrain cannot use.  No instruction names ChargeQueueing and the only
   way into it, the arrival of a DispatchStation vehicle, is refused at dispatch for an unusable plug since fix acfbea2, so the
   FIFO monitor reports such an overtaking like any other. *)
From Hive.Base Require Import Prelude.
From Hive.Model Require Import Types KernelBase SimOps States Step.
From Hive.Proofs Require Import Queue VehFrame Macro CountInv QueueServe QueueFifo QueueFifoEx.
From Coq Require Import Sorting.Permutation Sorting.Sorted.

Theorem C18_order_is_others_then_queue : forall s, update_order s = other_part s ++ queued_part s.
Proof. exact update_order_split. Qed.
Theorem C18_everyone_processed : forall s, Permutation (update_order s) (sorted_vals (vehicles s)).
Proof. exact update_order_perm. Qed.
Theorem C18_queue_sorted : forall s, StronglySorted (fun a b => queue_le a b = true) (queued_part s).
Proof. exact queued_part_sorted. Qed.
Theorem C18_earlier_first : forall s u v l1 l2 l3, queued_part s = l1 ++ u :: l2 ++ v :: l3 -> queue_le u v = true.
Proof. exact earlier_is_processed_first. Qed.
Theorem C18_key_injective : forall a b, queue_le a b = true -> queue_le b a = true -> v_id a = v_id b.
Proof. exact queue_le_antisym. Qed.
Theorem C18_offered_in_queue_order : forall env s l1 w l2 u l3 sid cid, vkeys s -> Inv_counts s ->
  queued_part s = l1 ++ w :: l2 ++ u :: l3 ->
  let s_w := pass_prefix env s (other_part s ++ l1) in
  let s_u := pass_prefix env s (other_part s ++ l1 ++ w :: l2) in
  forall cs_u, slook (stations s_u) sid cid = Some cs_u -> (0 < cs_avail cs_u)%Z ->
  exists cs_w, slook (stations s_w) sid cid = Some cs_w /\ (0 < cs_avail cs_w)%Z.
Proof. exact offered_in_queue_order. Qed.
Theorem C18_offered_and_updated_leaves_queue : forall env vid qs qc t s s', vkeys s -> terminal env vid (ChargeQueueing qs qc t) s = true ->
  vs_update env vid (ChargeQueueing qs qc t) s = Ok s' -> vstate_of s' vid = Some (ChargingStation qs qc).
Proof. exact offered_and_updated_leaves_queue. Qed.
Theorem C18_offered_plug_is_taken : forall env, (forall g, e_fence env g = true) -> forall s vid v qs qc t,
  vkeys s -> Inv_counts s -> PlaceInv.Inv_place s -> find vid (vehicles s) = Some v -> v_state v = ChargeQueueing qs qc t ->
  can_use env s v qs qc -> terminal env vid (ChargeQueueing qs qc t) s = true ->
  exists s', vs_update env vid (ChargeQueueing qs qc t) s = Ok s'.
Proof. exact offered_plug_is_taken. Qed.
(* the combined statement: within one update pass, if a vehicle u of the queue finds a plug of type (sid, cid) free at its turn,
   every vehicle w processed earlier in the queued part that waits for that plug type (and can use it) is CHARGING on it after
   its own turn — from any state satisfying the counts and places invariants (both proved over every history) *)
Theorem C18_earlier_in_queue_is_charging : forall env, (forall g, e_fence env g = true) -> forall s l1 w l2 u l3 sid cid tw,
  vkeys s -> Inv_counts s -> PlaceInv.Inv_place s ->
  queued_part s = l1 ++ w :: l2 ++ u :: l3 -> v_state w = ChargeQueueing sid cid tw ->
  let s_w := pass_prefix env s (other_part s ++ l1) in
  let s_u := pass_prefix env s (other_part s ++ l1 ++ w :: l2) in
  can_use env s_w w sid cid ->
  forall cs_u, slook (stations s_u) sid cid = Some cs_u -> (0 < cs_avail cs_u)%Z ->
  vstate_of (pass_prefix env s_w [w]) (v_id w) = Some (ChargingStation sid cid).
Proof. exact fifo_earlier_is_charging. Qed.
Print Assumptions C18_earlier_in_queue_is_charging.
(* its premises are satisfiable: a concrete world (Proofs/QueueFifoEx.v: two vehicles waiting since t = 100 and t = 130 for the two
   free fast plugs of a station) meets every one of them, and there the earlier vehicle is indeed charging after its turn *)
Example C18_earlier_in_queue_premises_satisfiable :
  vkeys ex_sim /\ Inv_counts ex_sim /\ PlaceInv.Inv_place ex_sim /\
  queued_part ex_sim = [] ++ ex_w :: [] ++ ex_u :: [] /\ v_state ex_w = ChargeQueueing 28%positive 1%positive 100%Z /\
  can_use ex_env (pass_prefix ex_env ex_sim (other_part ex_sim ++ [])) ex_w 28%positive 1%positive /\
  exists cs_u, slook (stations (pass_prefix ex_env ex_sim (other_part ex_sim ++ [] ++ ex_w :: []))) 28%positive 1%positive = Some cs_u /\ (0 < cs_avail cs_u)%Z.
Proof. exact fifo_premises_hold. Qed.
Print Assumptions C18_offered_plug_is_taken.
Print Assumptions C18_offered_in_queue_order. Print Assumptions C18_offered_and_updated_leaves_queue.

Print Assumptions C18_order_is_others_then_queue. Print Assumptions C18_everyone_processed.
Print Assumptions C18_queue_sorted. Print Assumptions C18_earlier_first. Print Assumptions C18_key_injective.
