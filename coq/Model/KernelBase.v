(* Model/KernelBase.v — hand-written definitions the generated kernels (Gen/Kernels.v) refer to:
   the models of numpy.interp and TabularPowertrain.energy_cost, and the two small result
   records of linktraversal.py / routetraversal.py.  No proofs here. *)
From Hive.Base Require Import Prelude.
From Hive.Model Require Import Types.

(* numpy.interp(x, xs, ys) over a table sorted by xs: clamp outside, linear inside *)
Fixpoint interp_from (x0 y0 : Q) (tab : list (Q * Q)) (x : Q) : Q :=
  match tab with
  | [] => y0
  | (x1, y1) :: rest =>
      if Qleb x x1
      then (if Qeqb x1 x0 then y1
            else Qred (y0 + (y1 - y0) * ((x - x0) / (x1 - x0))))   (* Qred: same value, small representation *)
      else interp_from x1 y1 rest x
  end.
Definition interp (tab : list (Q * Q)) (x : Q) : Q :=
  match tab with
  | [] => 0
  | (x0, y0) :: rest => if Qleb x x0 then y0 else interp_from x0 y0 rest x
  end.

(* TabularPowertrain.link_cost / energy_cost *)
Definition link_cost (m : Mech) (l : LinkT) : Q :=
  interp (m_train m) (l_speed l * m_speed_conv m) * (l_dist l * m_dist_conv m).
Definition energy_cost (m : Mech) (r : Route) : Q :=
  fold_left (fun acc l => acc + link_cost m l) r 0.

(* LinkTraversalResult / RouteTraversal *)
Record LTR := mkLTR { ltr_traversed : option LinkT; ltr_remaining : option LinkT; ltr_time : Z }.
Record RT := mkRT { rt_time : Z; rt_dist : Q; rt_exp : Route; rt_rem : Route }.
#[export] Instance etaRT : Settable _ := settable! mkRT <rt_time; rt_dist; rt_exp; rt_rem>.
Definition rt_empty : RT := mkRT 0 0 [] [].

(* the activity's class name, lower-cased (what the dispatcher compares with config.dispatcher.valid_dispatch_states) *)
Inductive SKind := K_idle | K_repositioning | K_dispatchtrip | K_servicingtrip | K_dispatchstation | K_chargingstation
                 | K_chargequeueing | K_dispatchbase | K_reservebase | K_chargingbase | K_outofservice.
Definition state_kind (st : VState) : SKind :=
  match st with
  | Idle _ => K_idle | Repositioning _ => K_repositioning | DispatchTrip _ _ => K_dispatchtrip | ServicingTrip _ _ _ => K_servicingtrip
  | DispatchStation _ _ _ => K_dispatchstation | ChargingStation _ _ => K_chargingstation | ChargeQueueing _ _ _ => K_chargequeueing
  | DispatchBase _ _ => K_dispatchbase | ReserveBase _ => K_reservebase | ChargingBase _ _ => K_chargingbase | OutOfService => K_outofservice
  end.
Definition skind_eqb (a b : SKind) : bool :=
  match a, b with
  | K_idle, K_idle | K_repositioning, K_repositioning | K_dispatchtrip, K_dispatchtrip | K_servicingtrip, K_servicingtrip
  | K_dispatchstation, K_dispatchstation | K_chargingstation, K_chargingstation | K_chargequeueing, K_chargequeueing
  | K_dispatchbase, K_dispatchbase | K_reservebase, K_reservebase | K_chargingbase, K_chargingbase | K_outofservice, K_outofservice => true
  | _, _ => false
  end.
Lemma skind_eqb_eq a b : skind_eqb a b = true <-> a = b.
Proof. destruct a, b; cbn; split; congruence. Qed.

