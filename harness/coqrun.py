"""coqrun.py — evaluate generated cases inside Coq (vm_compute), sharded over processes."""
import os, re, subprocess, tempfile, shutil, concurrent.futures as cf

COQ = os.path.join(os.path.dirname(os.path.abspath(__file__)), '..', 'coq')
QFLAGS = ['-Q', os.path.join(COQ, 'Base'), 'Hive.Base', '-Q', os.path.join(COQ, 'Gen'), 'Hive.Gen',
          '-Q', os.path.join(COQ, 'Model'), 'Hive.Model', '-Q', os.path.join(COQ, 'Proofs'), 'Hive.Proofs']
HEADER = ('From Hive.Base Require Import Prelude.\n'
          'From Hive.Model Require Import Types KernelBase SimOps States Step Harness.\n'
          'From Hive.Gen Require Import Kernels.\n'
          'Local Open Scope Q_scope.\nLocal Open Scope positive_scope.\n')

def _run_shard(args):
    path, timeout = args
    try:
        p = subprocess.run(['coqc'] + QFLAGS + [path], capture_output=True, text=True, timeout=timeout)
    except subprocess.TimeoutExpired:
        return path, None, 'timeout'
    if p.returncode != 0:
        return path, None, (p.stderr or p.stdout)[-3000:]
    return path, p.stdout, None

def eval_terms(terms, shard=40, jobs=12, timeout=900, workdir=None, header=HEADER, keep=False):
    """terms: list of Gallina terms of type Z.  Returns list of ints (or None where evaluation failed) and error texts."""
    wd = workdir or tempfile.mkdtemp(prefix='hive-verif-cases-', dir='/var/tmp')
    os.makedirs(wd, exist_ok=True)
    shards = []
    for si in range(0, len(terms), shard):
        chunk = terms[si:si + shard]
        path = os.path.join(wd, f'cases_{si // shard:04d}.v')
        with open(path, 'w') as f:
            f.write(header)
            for j, t in enumerate(chunk):
                f.write(f'Definition case_{j} : Z := {t}.\n')
            f.write('Eval vm_compute in [' + '; '.join(f'case_{j}' for j in range(len(chunk))) + '].\n')
        shards.append((path, timeout))
    results = [None] * len(terms)
    errors = []
    with cf.ThreadPoolExecutor(max_workers=jobs) as ex:
        for path, out, err in ex.map(_run_shard, shards):
            si = int(re.search(r'cases_(\d+)\.v$', path).group(1))
            if err is not None:
                errors.append((path, err))
                continue
            body = out[out.index('=') + 1:] if '=' in out else ''
            body = body.split(': list Z')[0]
            nums = [int(x) for x in re.findall(r'-?\d+', body)]
            n = min(shard, len(terms) - si * shard)
            if len(nums) != n:
                errors.append((path, f'could not parse {n} results from: {out[:500]}'))
                continue
            for j, v in enumerate(nums):
                results[si * shard + j] = v
    if not keep and not errors and workdir is None:
        shutil.rmtree(wd, ignore_errors=True)
    return results, errors, wd

def eval_raw(term, timeout=600, header=HEADER):
    """evaluate one term and return Coq's printed output (for diagnosis)"""
    wd = tempfile.mkdtemp(prefix='hive-verif-diag-', dir='/var/tmp')
    path = os.path.join(wd, 'diag.v')
    with open(path, 'w') as f:
        f.write(header + f'Eval vm_compute in ({term}).\n')
    p = subprocess.run(['coqc'] + QFLAGS + [path], capture_output=True, text=True, timeout=timeout)
    shutil.rmtree(wd, ignore_errors=True)
    return p.stdout if p.returncode == 0 else 'ERROR: ' + (p.stderr or p.stdout)[-3000:]
