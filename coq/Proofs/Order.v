(* Proofs/Order.v — C01: results that are computed from a hash-ordered container do not depend on the order in which
   the container was enumerated, when (a) the elements are sorted by an injective key first, or (b) they are folded with an
   operation that commutes. *)
From Hive.Base Require Import Prelude.
From Hive.Model Require Import Types KernelBase SimOps States Step.
From Hive.Proofs Require Import Sorted Queue.
From Coq Require Import Sorting.Permutation Sorting.Sorted.

Section Canon.
  Context {A : Type} (le : A -> A -> bool).
  Hypothesis le_total : forall a b, le a b = true \/ le b a = true.
  Hypothesis le_trans : forall a b c, le a b = true -> le b c = true -> le a c = true.

  (* two sorted lists with the same elements are equal, as soon as the order is antisymmetric on those elements
     (the sort key is injective: this is why the id tie-breakers in HIVE's sort keys matter) *)
  Lemma sorted_perm_unique (l1 l2 : list A) :
    (forall a b, In a l1 -> In b l1 -> le a b = true -> le b a = true -> a = b) ->
    sorted_by le l1 -> sorted_by le l2 -> Permutation l1 l2 -> l1 = l2.
  Proof.
    revert l2. induction l1 as [|x l1 IH]; intros l2 Anti S1 S2 P.
    - apply Permutation_nil in P. subst. reflexivity.
    - destruct l2 as [|y l2]; [apply Permutation_sym, Permutation_nil in P; discriminate|].
      inversion S1 as [|? ? S1' H1]; subst. inversion S2 as [|? ? S2' H2]; subst.
      rewrite Forall_forall in H1, H2.
      assert (x = y).
      { assert (Iy : In y (x :: l1)) by (apply (Permutation_in _ (Permutation_sym P)); left; reflexivity).
        assert (Ix : In x (y :: l2)) by (apply (Permutation_in _ P); left; reflexivity).
        destruct Iy as [E|Iy]; [exact E|]. destruct Ix as [E|Ix]; [symmetry; exact E|].
        apply Anti; [left; reflexivity|right; exact Iy|apply H1; exact Iy|apply H2; exact Ix]. }
      subst y. f_equal. apply IH; auto.
      + intros a b Ia Ib. apply Anti; right; assumption.
      + apply Permutation_cons_inv in P. exact P.
  Qed.

  Theorem sort_canonical (l1 l2 : list A) :
    (forall a b, In a l1 -> In b l1 -> le a b = true -> le b a = true -> a = b) ->
    Permutation l1 l2 -> sort_by le l1 = sort_by le l2.
  Proof.
    intros Anti P. apply sorted_perm_unique.
    - intros a b Ia Ib. apply Anti; apply (sort_by_In le); assumption.
    - apply sort_by_sorted; assumption.
    - apply sort_by_sorted; assumption.
    - rewrite (sort_by_perm le l1), (sort_by_perm le l2). exact P.
  Qed.
End Canon.

(* folding a commuting operation over a permuted enumeration gives the same result (independent-key map writes, any/all,
   set union, sums of rationals up to ==, "latest wins" over distinct keys) *)
Lemma comm_fold {A B} (f : B -> A -> B) (l1 l2 : list A) :
  (forall b x y, f (f b x) y = f (f b y) x) -> Permutation l1 l2 -> forall b, fold_left f l1 b = fold_left f l2 b.
Proof.
  intros C P. induction P; intro b; cbn; auto.
  - rewrite C. reflexivity.
  - rewrite IHP1. apply IHP2.
Qed.

(* the update order of perform_vehicle_state_updates is a function of the SET of vehicles: whatever enumeration of the
   vehicle map Python happened to produce, sorting by id and then by (enqueue_time, id) yields the model's order *)
Lemma by_id_antisym (a b : positive * Vehicle) : Pos.leb (fst a) (fst b) = true -> Pos.leb (fst b) (fst a) = true -> fst a = fst b.
Proof. rewrite !Pos.leb_le. lia. Qed.
Theorem sorted_elements_canonical {A} (m : pmap A) (enum : list (positive * A)) :
  Permutation enum (PM.elements m) -> sort_by (fun a b => Pos.leb (fst a) (fst b)) enum = sorted_elements m.
Proof.
  intro P. unfold sorted_elements. apply sort_canonical; auto.
  - intros a b. rewrite !Pos.leb_le. lia.
  - intros a b c. rewrite !Pos.leb_le. lia.
  - intros [k1 v1] [k2 v2] I1 I2 L1 L2. cbn in *. apply Pos.leb_le in L1, L2. assert (k1 = k2) by lia. subst k2.
    apply (Permutation_in _ P) in I1, I2. apply PM.elements_complete in I1, I2. congruence.
Qed.
