#!/usr/bin/env python3
"""seed_eval.py <prop> <worktree> [--name NAME] [--all]: confirm a seeded change (demo fails with / passes without, suite still
passes), keep it under /verif/seeded/<name>/, run ./check <prop> (or every claimed check with --all) against /repo with the
change applied, undo it, and write meta.json."""
import sys, os, json, subprocess, shutil, xml.etree.ElementTree as ET, tempfile
prop, wt = sys.argv[1], sys.argv[2]
name = sys.argv[sys.argv.index('--name') + 1] if '--name' in sys.argv else f'{prop}-1'
VERIF = os.environ.get('VERIF_ROOT', '/verif')
out = os.path.join(VERIF, 'seeded', name)
os.makedirs(out, exist_ok=True)
def sh(cmd, cwd=None, env=None, timeout=3600):
    p = subprocess.run(cmd, shell=True, cwd=cwd, capture_output=True, text=True, env=env, timeout=timeout)
    return p.returncode, p.stdout + p.stderr
for f in ('patch.diff', 'demo.py', 'notes.md'):
    shutil.copy(os.path.join(wt, '_seed', f), os.path.join(out, f))
env = dict(os.environ, PYTHONPATH=wt, PYTHONHASHSEED='0'); env.pop('NREL_HIVE_VERIF', None)
# demo with the change (worktree has it applied), then without
rc_with, o1 = sh(f'/venv/bin/python -W ignore _seed/demo.py', cwd=wt, env=env)
# (never `git stash`: the stash is shared between all worktrees of a repository)
sh('git diff -- nrel > _seed/_current.diff && git checkout -- nrel', cwd=wt)
rc_without, o2 = sh(f'/venv/bin/python -W ignore _seed/demo.py', cwd=wt, env=env)
sh('git apply _seed/_current.diff', cwd=wt)
# suite with the change
b = json.load(open('/root/.vp/BASELINE.json'))
xml = tempfile.mktemp(suffix='.xml', dir='/var/tmp')
rc, o = sh(f'/venv/bin/python -m pytest -q -p no:cacheprovider --timeout=900 --continue-on-collection-errors --junitxml={xml}', cwd=wt, env=env)
passed = set()
for tc in ET.parse(xml).getroot().iter('testcase'):
    if not any(ch.tag in ('failure', 'error', 'skipped') for ch in tc):
        passed.add(f"{tc.get('classname')}::{tc.get('name')}")
os.remove(xml)
missing = sorted(set(b['stable_pass']) - passed)
meta = {'property': prop, 'name': name, 'demo_exit_with_change': rc_with, 'demo_exit_without_change': rc_without,
        'suite_missing_with_change': missing, 'demo_output_with_change': o1[-600:]}
ok = rc_with != 0 and rc_without == 0 and not missing
meta['confirmed'] = ok
print('confirmed' if ok else 'NOT CONFIRMED', meta['demo_exit_with_change'], meta['demo_exit_without_change'], missing[:3])
# run the checks against /repo with the change (or, with --in-worktree, against the worktree itself through HIVE_REPO:
# same sources plus the change, /repo untouched)
INWT = '--in-worktree' in sys.argv
rc, o = (0, '') if INWT else sh(f'git -C /repo apply --check {out}/patch.diff')
if rc != 0:
    meta['apply_error'] = o[-500:]
    print('patch does not apply to /repo:', o[-300:])
else:
    if not INWT:
        sh(f'git -C /repo apply {out}/patch.diff')
    cenv = dict(os.environ, HIVE_REPO=wt) if INWT else None
    # evidence files are rewritten by every run: keep the ones from the unchanged tree and put them back afterwards
    saved_ev = {f: open(os.path.join(VERIF, 'evidence', f)).read() for f in os.listdir(os.path.join(VERIF, 'evidence'))}
    try:
        props = [prop]
        if '--all' in sys.argv:
            props = [c['property_id'] for c in json.load(open(os.path.join(VERIF, 'MANIFEST.json')))['checks']]
        results = {}
        for p in props:
            rc, o = sh(f'./check {p} --tier quick', cwd=VERIF, env=cenv)
            lines = [l for l in o.split('\n') if l.startswith(('VIOLATION', 'OK ', 'KNOWN-FINDING'))]
            results[p] = {'exit': rc, 'lines': lines}
            ev = json.load(open(os.path.join(VERIF, 'evidence', f'{p}.json')))
            results[p]['broken'] = [b['name'] for b in ev.get('broken_artefacts', [])][:4]
            results[p]['found'] = sorted(set(f['kind'] for f in ev.get('found', [])))
            print(p, rc, lines[:2], results[p]['broken'][:2], results[p]['found'])
        meta['checks_with_change'] = results
        meta['detected_by_target_check'] = results[prop]['exit'] == 1
    finally:
        if not INWT:
            sh('git -C /repo checkout -- .')
        for f, txt in saved_ev.items():
            open(os.path.join(VERIF, 'evidence', f), 'w').write(txt)
meta['ran'] = f'tools/seed_eval.py {prop} {wt} --name {name}' + (' --all' if '--all' in sys.argv else '') + (' --in-worktree' if INWT else '')
json.dump(meta, open(os.path.join(out, 'meta.json'), 'w'), indent=1)
