"""engine.py — shared machinery of ./check: translator run, Coq build and audit, step-model
correspondence + monitors (cached per tree), verdict logic and evidence writing (DESIGN §3.4, §7)."""
import os, sys, re, json, time, hashlib, subprocess, fcntl, glob, random, collections, shutil

VERIF = os.path.dirname(os.path.dirname(os.path.abspath(__file__)))
REPO = os.environ.get('HIVE_REPO', '/repo')
COQ = os.path.join(VERIF, 'coq')
WORK = os.path.join(VERIF, 'work')
PY = '/venv/bin/python'
os.makedirs(WORK, exist_ok=True)

FORBIDDEN = re.compile(r'\b(Admitted|admit|Axiom|Axioms|Parameter|Parameters|Conjecture|Conjectures|Hypothesis|Hypotheses|Variable|Variables)\b'
                       r'|Unset\s+Guard|bypass_check|Admit\s+Obligations|-type-in-type|-impredicative-set|native_compute')
ALLOWED_AXIOMS = set()   # the development is expected to be closed under the global context

def sh(cmd, timeout=1800, cwd=None, env=None):
    try:
        p = subprocess.run(cmd, shell=isinstance(cmd, str), cwd=cwd, capture_output=True, text=True, timeout=timeout, env=env)
        return p.returncode, p.stdout, p.stderr
    except subprocess.TimeoutExpired as e:
        return 124, (e.stdout or b'').decode() if isinstance(e.stdout, bytes) else (e.stdout or ''), 'timeout'

class Lock:
    def __init__(self, name='build'):
        self.path = os.path.join(WORK, f'.{name}.lock')
    def __enter__(self):
        self.f = open(self.path, 'w')
        fcntl.flock(self.f, fcntl.LOCK_EX)
        return self
    def __exit__(self, *a):
        fcntl.flock(self.f, fcntl.LOCK_UN)
        self.f.close()

# ------------------------------------------------------------------------------------------------
# 1. translator
def translate():
    """regenerate coq/Gen/Kernels.v from REPO.  Returns {'ok', 'failures': [{kernel, reason}], 'changed'}.
    A kernel that no longer fits the subset keeps its last pinned text (tools/py2v/pinned_kernels.json) so the
    model still builds; the properties resting on it are reported as 'tie broken (translator)'."""
    rc, out, err = sh([PY, os.path.join(VERIF, 'tools/py2v/gen.py'), REPO, os.path.join(COQ, 'Gen')], timeout=300)
    try:
        rep = json.loads(out[out.index('{'):])
    except Exception:
        rep = {'ok': False, 'failures': [{'kernel': '*', 'reason': (err or out)[-800:]}]}
    rc2, out2, err2 = sh([PY, os.path.join(VERIF, 'tools/py2v/inventory.py'), REPO, os.path.join(COQ, 'Gen')], timeout=300)
    try:
        rep['inventory'] = json.loads(out2[out2.index('{'):])
    except Exception:
        rep.setdefault('failures', []).append({'kernel': 'inventory', 'file': 'tools/py2v/inventory.py', 'fn': 'scan', 'reason': (err2 or out2)[-800:]})
        rep['ok'] = False
    return rep

# ------------------------------------------------------------------------------------------------
# 2. Coq build
def coq_files():
    fs = []
    for d in ('Base', 'Gen', 'Model', 'Proofs', 'Props'):
        fs += sorted(glob.glob(os.path.join(COQ, d, '*.v')))
    return [os.path.relpath(f, COQ) for f in fs]

def build_coq(targets=None, jobs=12, timeout=2400):
    """full .vo build with make -k.  Returns {'ok': bool per target, 'log': text}"""
    with Lock('build'):
        files = coq_files()
        listing = '\n'.join(files)
        stamp = os.path.join(COQ, '.filelist')
        if not os.path.exists(os.path.join(COQ, 'Makefile')) or not os.path.exists(stamp) or open(stamp).read() != listing:
            rc, out, err = sh(['coq_makefile', '-f', '_CoqProject'] + files + ['-o', 'Makefile'], cwd=COQ, timeout=120)
            open(stamp, 'w').write(listing)
        t = time.time()
        rc, out, err = sh(['make', '-k', f'-j{jobs}'] + ([t_ for t_ in targets] if targets else []), cwd=COQ, timeout=timeout)
        log = out + '\n' + err
        open(os.path.join(WORK, 'build.log'), 'w').write(log)
        status = {}
        for f in files:
            vo = os.path.join(COQ, f[:-2] + '.vo')
            status[f] = os.path.exists(vo) and os.path.getmtime(vo) >= os.path.getmtime(os.path.join(COQ, f))
        # a .vo can be newer than its .v yet stale w.r.t. a dependency that failed: ask make
        if rc != 0:
            for f in files:
                if status[f]:
                    rq, _, _ = sh(['make', '-q', f[:-2] + '.vo'], cwd=COQ, timeout=120)
                    if rq != 0:
                        status[f] = False
        return {'rc': rc, 'status': status, 'log': log, 'wall_s': time.time() - t}

def first_error(log, max_len=1500):
    m = re.search(r'File "([^"]+)", line (\d+), characters [\d-]+:\s*\n(Error:.*?)(?=\n(?:make|File|COQC|coqc)|\Z)', log, re.S)
    if not m:
        return None
    return {'file': m.group(1), 'line': int(m.group(2)), 'error': m.group(3)[:max_len]}

def enclosing_statement(vfile, line):
    """name of the Theorem/Lemma/... whose proof contains the given line"""
    try:
        lines = open(vfile).read().split('\n')
    except OSError:
        return None
    pat = re.compile(r'^\s*(?:Theorem|Lemma|Corollary|Example|Definition|Fixpoint|Fact|Proposition|Remark|Instance)\s+([A-Za-z0-9_\']+)')
    for i in range(min(line, len(lines)) - 1, -1, -1):
        m = pat.match(lines[i])
        if m:
            return m.group(1)
    return None

def coq_deps(vfile):
    """transitive project-local dependencies of a .v file (relative paths), via coqdep"""
    rc, out, err = sh(['coqdep', '-f', '_CoqProject'] + coq_files(), cwd=COQ, timeout=120)
    deps = {}
    for line in out.split('\n'):
        if ':' not in line:
            continue
        lhs, rhs = line.split(':', 1)
        tgt = [x for x in lhs.split() if x.endswith('.vo')]
        if not tgt:
            continue
        src = tgt[0][:-3] + '.v'
        deps[src] = [x[:-3] + '.v' for x in rhs.split() if x.endswith('.vo') and not x.startswith('/')]
    seen, stack = [], [vfile]
    while stack:
        f = stack.pop()
        if f in seen:
            continue
        seen.append(f)
        stack += deps.get(f, [])
    return seen

STMT = re.compile(r'^\s*(Theorem|Lemma|Corollary|Example|Fact|Proposition|Remark)\s+([A-Za-z0-9_\']+)', re.M)

def count_statements(files):
    n, names = 0, []
    for f in files:
        try:
            txt = open(os.path.join(COQ, f)).read()
        except OSError:
            continue
        for m in STMT.finditer(txt):
            n += 1
            names.append(f'{f}:{m.group(2)}')
    return n, names

def audit_sources(files):
    """forbidden vernacular in hand-written sources (Section Variables are allowed only inside Sections: checked
    separately by Print Assumptions being closed)"""
    bad = []
    for f in files:
        try:
            txt = open(os.path.join(COQ, f)).read()
        except OSError:
            continue
        txt_nc = re.sub(r'\(\*.*?\*\)', '', txt, flags=re.S)
        depth = 0
        for ln, line in enumerate(txt_nc.split('\n'), 1):
            if re.match(r'\s*Section\b', line):
                depth += 1
            if re.match(r'\s*End\b', line) and depth > 0:
                depth -= 1
            for m in FORBIDDEN.finditer(line):
                w = m.group(0)
                if w in ('Variable', 'Variables', 'Hypothesis', 'Hypotheses') and depth > 0:
                    continue
                bad.append(f'{f}:{ln}: {w}')
    return bad

def print_assumptions(props_file):
    """compile Props/Cnn.v once more on its own and collect the Print Assumptions output"""
    flags = []
    for d, n in (('Base', 'Hive.Base'), ('Gen', 'Hive.Gen'), ('Model', 'Hive.Model'), ('Proofs', 'Hive.Proofs'), ('Props', 'Hive.Props')):
        flags += ['-Q', os.path.join(COQ, d), n]
    tmp = os.path.join(WORK, f'pa_{os.getpid()}')
    os.makedirs(tmp, exist_ok=True)
    src = os.path.join(COQ, props_file)
    dst = os.path.join(tmp, os.path.basename(props_file))
    shutil.copy(src, dst)
    rc, out, err = sh(['coqc'] + flags + [dst], timeout=900)
    shutil.rmtree(tmp, ignore_errors=True)
    closed = out.count('Closed under the global context')
    axioms = []
    if 'Axioms:' in out:
        for blk in out.split('Axioms:')[1:]:
            for line in blk.split('\n')[1:]:
                m = re.match(r'^([A-Za-z0-9_.\']+)\s*:', line)
                if m:
                    axioms.append(m.group(1))
                elif line.strip() == '' or line.startswith('Closed'):
                    break
    return {'rc': rc, 'closed': closed, 'axioms': sorted(set(axioms)), 'raw': out[-3000:], 'err': err[-1500:]}

# ------------------------------------------------------------------------------------------------
# 3. tree hashing (cache keys, diff-coverage)
def tree_hash(extra=()):
    h = hashlib.sha256()
    for root in (os.path.join(REPO, 'nrel'),):
        for dp, dn, fn in sorted(os.walk(root)):
            dn.sort()
            if '__pycache__' in dp:
                continue
            for f in sorted(fn):
                if f.endswith(('.py', '.yaml', '.csv', '.json')) and 'resources/scenarios' not in dp:
                    p = os.path.join(dp, f)
                    h.update(p.encode()); h.update(open(p, 'rb').read())
    for d in ('coq/Base', 'coq/Model', 'coq/Gen', 'coq/Proofs', 'harness'):     # Proofs: the deciders of Proofs/Decide.v are evaluated too
        for p in sorted(glob.glob(os.path.join(VERIF, d, '*.v')) + glob.glob(os.path.join(VERIF, d, '*.py'))):
            h.update(p.encode()); h.update(open(p, 'rb').read())
    for e in extra:
        h.update(str(e).encode())
    return h.hexdigest()[:20]

# ------------------------------------------------------------------------------------------------
# 4. known findings
def load_known():
    out = []
    p = os.path.join(VERIF, 'KNOWN_FINDINGS.txt')
    if not os.path.exists(p):
        return out
    for line in open(p):
        line = line.strip()
        if not line.startswith('known:'):
            continue
        body = line[len('known:'):].split(' -- ')[0]
        kv = dict(x.split('=', 1) for x in body.split() if '=' in x)
        out.append({'kv': kv, 'text': line})
    return out

def match_known(known, prop, kind, detail):
    for k in known:
        kv = k['kv']
        if kv.get('property') != prop or kv.get('kind') != kind:
            continue
        ok = True
        for key, val in kv.items():
            if key in ('property', 'kind'):
                continue
            if str(detail.get(key)) != val:
                ok = False
        if ok:
            return k
    return None
