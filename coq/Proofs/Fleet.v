(* Proofs/Fleet.v — C05 fleet totals over whole histories.  The per-entity books of AcctInv.v regroup into fleet totals because every
   book event names a vehicle (and, for a charge, a station) that exists (`named`, carried by `acct`) and no entity ever appears
   or disappears (`dom_kept` + the forward direction of acct): summed over the fleet, the energy vehicles gained equals the sum of
   the charge events' energies, which — split by the plug's energy type — equals what the stations report as dispensed; what
   vehicles paid is what stations received; fleet income is fares minus payments. *)
From Hive.Base Require Import Prelude.
From Hive.Model Require Import Types KernelBase SimOps States Step.
From Hive.Gen Require Import Kernels.
From Hive.Proofs Require Import SimFacts Reach VehFrame Atomic Trip Macro Count CountInv Sorted AcctInv.
From Coq Require Import Sorting.Permutation.
Local Open Scope Q_scope.

Fixpoint sumQ (l : list Q) : Q := match l with [] => 0 | x :: t => x + sumQ t end.
Definition over (ks : list id) (g : id -> Q) : Q := sumQ (map g ks).
Fixpoint evsum (h : Event -> Q) (l : list Event) : Q := match l with [] => 0 | e :: t => h e + evsum h t end.

Lemma over_plus ks g h : over ks (fun k => g k + h k) == over ks g + over ks h.
Proof. unfold over. induction ks as [|k ks IH]; cbn; [lra|]. rewrite IH. lra. Qed.
Lemma over_neg ks g : over ks (fun k => - g k) == - over ks g.
Proof. unfold over. induction ks as [|k ks IH]; cbn; [lra|]. rewrite IH. lra. Qed.
Lemma over_ext ks g h : (forall k, In k ks -> g k == h k) -> over ks g == over ks h.
Proof. unfold over. induction ks as [|k ks IH]; intro H; cbn; [lra|]. rewrite (H k) by (left; reflexivity). rewrite IH by (intros; apply H; right; assumption). lra. Qed.
Lemma over_zero ks g : (forall k, In k ks -> g k == 0) -> over ks g == 0.
Proof. intro H. rewrite (over_ext ks g (fun _ => 0) H). clear H. unfold over. induction ks as [|k ks IH]; cbn; [lra|]. rewrite IH. lra. Qed.
(* an amount booked under one id of a duplicate-free id list is counted exactly once *)
Lemma over_one ks v x : NoDup ks -> In v ks -> over ks (fun k => if Pos.eqb v k then x else 0) == x.
Proof.
  unfold over. induction ks as [|k ks IH]; intros N I; [destruct I|]. inversion N as [|? ? Nk Nt]; subst. cbn [map sumQ].
  destruct I as [->|I].
  - rewrite Pos.eqb_refl. fold (over ks (fun k => if Pos.eqb v k then x else 0)).
    rewrite over_zero; [lra|]. intros k Ik. destruct (Pos.eqb_spec v k) as [->|_]; [contradiction|lra].
  - destruct (Pos.eqb_spec v k) as [->|_]; [contradiction|]. rewrite IH by assumption. lra.
Qed.
(* exchange of the two sums *)
Lemma exchange (f : Event -> id -> Q) (h : Event -> Q) ks l : (forall e, In e l -> over ks (f e) == h e) -> over ks (total f l) == evsum h l.
Proof.
  induction l as [|e l IH]; intro H; cbn [total evsum].
  - apply over_zero. intros; lra.
  - rewrite over_plus, (H e) by (left; reflexivity). rewrite IH by (intros; apply H; right; assumption). lra.
Qed.

(* what an event says, whoever it names *)
Definition ev_energy (e : Event) : Q := match e with EvCharge _ _ _ _ en _ _ => en | _ => 0 end.
Definition ev_energy_t (et : EnergyType) (e : Event) : Q := match e with EvCharge _ _ _ t en _ _ => if etype_eqb t et then en else 0 | _ => 0 end.
Definition ev_price (e : Event) : Q := match e with EvCharge _ _ _ _ _ p _ => p | _ => 0 end.
Definition ev_value (e : Event) : Q := match e with EvPickup _ _ _ _ val => val | _ => 0 end.
Definition ev_dist (e : Event) : Q := match e with EvMove _ d _ => d | _ => 0 end.
Lemma energy_by_type l : evsum ev_energy l == evsum (ev_energy_t Electric) l + evsum (ev_energy_t Gasoline) l.
Proof. induction l as [|e l IH]; cbn [evsum]; [lra|]. rewrite IH. destruct e; cbn; try lra. destruct et; cbn; lra. Qed.

Definition vget (f : Vehicle -> Q) (s : Sim) (k : id) : Q := match find k (vehicles s) with Some v => f v | None => 0 end.
Definition sget (f : Station -> Q) (s : Sim) (k : id) : Q := match find k (stations s) with Some v => f v | None => 0 end.

Section F.
Variable env : Env.

Lemma in_keys {A} (m : pmap A) k : In k (sorted_keys m) <-> PM.find k m <> None.
Proof.
  rewrite sorted_keys_In. split.
  - intros [v M]. apply PM.find_1 in M. congruence.
  - intro N. destruct (PM.find k m) as [v|] eqn:F; [|congruence]. exists v. apply PM.find_2. exact F.
Qed.

Theorem fleet_books ops s0 : vkeys s0 -> skeys (stations s0) -> Forall op_ok ops -> log s0 = [] ->
  let s := fold_left (step_op env) ops s0 in
  let vs := sorted_keys (vehicles s0) in let ss := sorted_keys (stations s0) in
  (* the fleet is the same fleet *)
  (forall k, In k (sorted_keys (vehicles s)) <-> In k vs) /\ (forall k, In k (sorted_keys (stations s)) <-> In k ss) /\
  (* energy: vehicles' gain = charge events = stations' dispensed, per plug energy type *)
  over vs (vget v_gained s) == over vs (vget v_gained s0) + evsum ev_energy (log s) /\
  over ss (sget s_disp_e s) == over ss (sget s_disp_e s0) + evsum (ev_energy_t Electric) (log s) /\
  over ss (sget s_disp_g s) == over ss (sget s_disp_g s0) + evsum (ev_energy_t Gasoline) (log s) /\
  (* money *)
  over vs (vget v_balance s) == over vs (vget v_balance s0) + evsum ev_value (log s) - evsum ev_price (log s) /\
  over ss (sget s_balance s) == over ss (sget s_balance s0) + evsum ev_price (log s) /\
  (* distance *)
  over vs (vget v_odo s) == over vs (vget v_odo s0) + evsum ev_dist (log s).
Proof.
  intros K SK Hok L0. cbv zeta. destruct (acct_over_histories env ops s0 K SK Hok K SK) as (_ & _ & evs & L & V & S & (Dv & Ds) & Nm).
  rewrite L0, app_nil_r in L. rewrite L. set (s := fold_left (step_op env) ops s0) in *.
  assert (NV := sorted_elements_keys_NoDup (vehicles s0)). assert (NS := sorted_elements_keys_NoDup (stations s0)).
  assert (DomV : forall k, In k (sorted_keys (vehicles s)) <-> In k (sorted_keys (vehicles s0))).
  { intro k. rewrite !in_keys. split; intro N.
    - intro Z. apply N. apply Dv. exact Z.
    - destruct (PM.find k (vehicles s0)) as [v|] eqn:F; [|congruence]. destruct (V k v F) as (v' & F' & _). unfold find in F'. congruence. }
  assert (DomS : forall k, In k (sorted_keys (stations s)) <-> In k (sorted_keys (stations s0))).
  { intro k. rewrite !in_keys. split; intro N.
    - intro Z. apply N. apply Ds. exact Z.
    - destruct (PM.find k (stations s0)) as [v|] eqn:F; [|congruence]. destruct (S k v F) as (v' & F' & _). unfold find in F'. congruence. }
  split; [exact DomV|]. split; [exact DomS|].
  (* per-entity books, read through vget / sget *)
  assert (PV : forall k, In k (sorted_keys (vehicles s0)) ->
     vget v_odo s k == vget v_odo s0 k + total ev_moved evs k /\ vget v_gained s k == vget v_gained s0 k + total ev_charged evs k /\
     vget v_balance s k == vget v_balance s0 k + total ev_fare evs k - total ev_paid evs k).
  { intros k I. apply in_keys in I. destruct (PM.find k (vehicles s0)) as [v|] eqn:F; [|congruence]. destruct (V k v F) as (v' & F' & A).
    unfold vget, find in *. rewrite F, F'. exact A. }
  assert (PS : forall k, In k (sorted_keys (stations s0)) ->
     sget s_balance s k == sget s_balance s0 k + total ev_recv evs k /\ sget s_disp_e s k == sget s_disp_e s0 k + total (ev_disp Electric) evs k /\
     sget s_disp_g s k == sget s_disp_g s0 k + total (ev_disp Gasoline) evs k).
  { intros k I. apply in_keys in I. destruct (PM.find k (stations s0)) as [v|] eqn:F; [|congruence]. destruct (S k v F) as (v' & F' & A).
    unfold sget, find in *. rewrite F, F'. exact A. }
  (* the exchanges *)
  assert (NmI : forall e, In e evs -> named s0 e) by (apply Forall_forall; exact Nm).
  assert (XE : over (sorted_keys (vehicles s0)) (total ev_charged evs) == evsum ev_energy evs).
  { apply exchange. intros e Ie. specialize (NmI e Ie). destruct e; try (apply over_zero; intros; cbn; lra); cbn in NmI; cbn [ev_energy ev_price ev_value ev_dist ev_energy_t].
    apply over_one; [exact NV|apply in_keys; tauto]. }
  assert (XP : over (sorted_keys (vehicles s0)) (total ev_paid evs) == evsum ev_price evs).
  { apply exchange. intros e Ie. specialize (NmI e Ie). destruct e; try (apply over_zero; intros; cbn; lra); cbn in NmI; cbn [ev_energy ev_price ev_value ev_dist ev_energy_t].
    apply over_one; [exact NV|apply in_keys; tauto]. }
  assert (XF : over (sorted_keys (vehicles s0)) (total ev_fare evs) == evsum ev_value evs).
  { apply exchange. intros e Ie. specialize (NmI e Ie). destruct e; try (apply over_zero; intros; cbn; lra); cbn in NmI; cbn [ev_energy ev_price ev_value ev_dist ev_energy_t].
    apply over_one; [exact NV|apply in_keys; tauto]. }
  assert (XM : over (sorted_keys (vehicles s0)) (total ev_moved evs) == evsum ev_dist evs).
  { apply exchange. intros e Ie. specialize (NmI e Ie). destruct e; try (apply over_zero; intros; cbn; lra); cbn in NmI; cbn [ev_energy ev_price ev_value ev_dist ev_energy_t].
    apply over_one; [exact NV|apply in_keys; tauto]. }
  assert (XR : over (sorted_keys (stations s0)) (total ev_recv evs) == evsum ev_price evs).
  { apply exchange. intros e Ie. specialize (NmI e Ie). destruct e; try (apply over_zero; intros; cbn; lra); cbn in NmI; cbn [ev_energy ev_price ev_value ev_dist ev_energy_t].
    apply over_one; [exact NS|apply in_keys; tauto]. }
  assert (XD : forall et, over (sorted_keys (stations s0)) (total (ev_disp et) evs) == evsum (ev_energy_t et) evs).
  { intro et0. apply exchange. intros e Ie. specialize (NmI e Ie). destruct e; try (apply over_zero; intros; cbn; lra); cbn in NmI; cbn [ev_energy ev_price ev_value ev_dist ev_energy_t].
    destruct (etype_eqb et et0) eqn:Et.
    - transitivity (over (sorted_keys (stations s0)) (fun k => if Pos.eqb sid k then energy else 0)).
      + apply over_ext. intros k _. cbn. rewrite Et, andb_true_r. lra.
      + apply over_one; [exact NS|apply in_keys; tauto].
    - apply over_zero. intros k _. cbn. rewrite Et, andb_false_r. lra. }
  repeat split.
  - rewrite <- XE, <- over_plus. apply over_ext. intros k I. apply (PV k I).
  - rewrite <- (XD Electric), <- over_plus. apply over_ext. intros k I. apply (PS k I).
  - rewrite <- (XD Gasoline), <- over_plus. apply over_ext. intros k I. apply (PS k I).
  - rewrite <- XF, <- XP.
    rewrite (over_ext _ (vget v_balance s) (fun k => (vget v_balance s0 k + total ev_fare evs k) + (- total ev_paid evs k))) by (intros k I; destruct (PV k I) as (_ & _ & B); rewrite B; lra).
    rewrite !over_plus.
    rewrite over_neg. lra.
  - rewrite <- XR, <- over_plus. apply over_ext. intros k I. apply (PS k I).
  - rewrite <- XM, <- over_plus. apply over_ext. intros k I. apply (PV k I).
Qed.
End F.
